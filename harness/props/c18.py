"""C18 — dependencies resolve to exactly what their providers return."""
from __future__ import annotations

import asyncio
import inspect
from typing import Annotated

from .. import coqterm as ct
from .. import runmodel
from ..common import Ctx, Failure, Result
from ..clock import CLOCK
from ..pyparams import mk_params
from ..world import MemMessage, Router, World, key

RULE = ("(a) generated DAGs of real Depends objects (2-7 nodes, depth <= 5, fan-out <= 3, shared sub-dependencies, the message "
        "dependency at any level, sync and async providers mixed) under a real actor run by a real Worker (one delivery per "
        "run), sequences of runs and overrides (new provider, changed sub-dependency set), providers failing or not; observed: "
        "the keyword arguments the actor received, every provider call with its keyword arguments, the disposition when a "
        "provider raised; (b) generated provider signatures (all parameter kinds, dependency or not, default or not) declared "
        "through Depends(...) and Depends.override(...). Distinct by the printed Coq case; non-trivial = the graph has a shared "
        "or nested sub-dependency, an override or a failing provider")
TRUSTED = ["provider values are numbers computed from the provider id and its keyword arguments (mix); exceptions are "
           "identified by class", "real-time event loop for this check (sync providers run in thread pools)"]
ASSUMPTIONS = ["the dependency graph is acyclic (also after overrides)", "providers are deterministic functions of their arguments"]
MSGV = 777
M = 1000000007


def mix(f: int, kw: list) -> int:
    acc = (f * 1009)
    for n, v in kw:
        acc = (acc * 31 + n * 7 + v) % M
    return acc % M


# ------------------------------------------------------------------ generation
def gen_subs(rng, i: int, n: int, names) -> list:
    subs = []
    for _ in range(rng.choice([0, 1, 1, 2, 2, 3])):
        if i + 1 < n and rng.random() < 0.8:
            subs.append((next(names), ("n", rng.randint(i + 1, n - 1))))
        elif rng.random() < 0.5:
            subs.append((next(names), ("m",)))
    return subs


def gen_case(rng) -> dict:
    n = rng.randint(2, 7)
    ctr = iter(range(10, 10_000))
    fctr = iter(range(1, 10_000))
    nodes = []
    for i in range(n):
        nodes.append({"f": next(fctr), "subs": gen_subs(rng, i, n, ctr), "sync": rng.random() < 0.35})
    deps = []
    for _ in range(rng.randint(1, 3)):
        deps.append((next(ctr), ("n", rng.randrange(n)) if rng.random() < 0.85 else ("m",)))
    ops = []
    fns = [nd["f"] for nd in nodes]
    for _ in range(rng.randint(1, 5)):
        r = rng.random()
        if r < 0.45:
            ops.append(("run", []))
        elif r < 0.65:
            ops.append(("run", rng.sample(fns, 1)))
        else:
            i = rng.randrange(n)
            f = next(fctr)
            fns.append(f)
            ops.append(("override", i, f, gen_subs(rng, i, n, ctr), rng.random() < 0.35))
    if not any(o[0] == "run" for o in ops):
        ops.append(("run", []))
    return {"nodes": nodes, "deps": deps, "ops": ops, "retries": rng.choice([0, 0, 1, 2]), "by": rng.random() < 0.15}


def dep_term(d) -> str:
    return f"(DNode {d[1]}%nat)" if d[0] == "n" else "DMsg"


def subs_term(subs) -> str:
    return ct.lst(f"({n}, {dep_term(d)})" for n, d in subs)


def case_term(c: dict) -> str:
    st = ct.lst(f"(mkN {nd['f']} {subs_term(nd['subs'])})" for nd in c["nodes"])
    ops = []
    for o in c["ops"]:
        if o[0] == "run":
            ops.append(f"(DRun {ct.zlist(o[1])})")
        else:
            ops.append(f"(DOverride {o[1]}%nat {o[2]} {subs_term(o[3])})")
    return f"({st}, {subs_term(c['deps'])}, {ct.lst(ops)})"


# ------------------------------------------------------------------ reference evaluation (model-free oracle)
def ref_resolve(nodes: list, d, failing: set):
    """('ok', v) | ('err',) by plain recursion over the spec."""
    if d[0] == "m":
        return ("ok", MSGV)
    nd = nodes[d[1]]
    kw, failed = [], False
    for n, sd in nd["subs"]:
        r = ref_resolve(nodes, sd, failing)
        if r[0] == "err":
            failed = True
        else:
            kw.append((n, r[1]))
    if failed or nd["f"] in failing:
        return ("err",)
    return ("ok", mix(nd["f"], kw))


# ------------------------------------------------------------------ real objects
class Env:
    def __init__(self) -> None:
        self.calls: list = []
        self.failing: set = set()
        self.received: list = []

    def call(self, f: int, kw: dict):
        from repid import MessageDependency
        enc = [(int(k[1:]), MSGV if isinstance(v, MessageDependency) else v) for k, v in kw.items()]
        self.calls.append((f, enc))
        if f in self.failing:
            raise type(f"E{9000 + f}", (Exception,), {})(str(9000 + f))
        return mix(f, enc)


def make_fn(env: Env, deps_objs: list, f: int, subs: list, sync: bool, name: str = "prov"):
    from repid import MessageDependency
    ns = {"Annotated": Annotated, "DEPS": deps_objs, "ENV": env, "MessageDependency": MessageDependency}
    params = []
    for n, d in subs:
        ann = f"Annotated[int, DEPS[{d[1]}]]" if d[0] == "n" else "MessageDependency"
        params.append(f"p{n}: {ann}")
    kw = ", ".join(f"p{n}=p{n}" for n, _ in subs)
    src = f"{'def' if sync else 'async def'} {name}{f}({', '.join(params)}):\n    return ENV.call({f}, dict({kw}))\n"
    exec(compile(src, "<gen>", "exec", dont_inherit=True), ns)  # noqa: S102
    return ns[f"{name}{f}"]


async def run_case(c: dict) -> dict:
    from repid import BasicConverter, Depends, MessageDependency
    env = Env()
    n = len(c["nodes"])
    deps_objs: list = [None] * n
    for i in reversed(range(n)):
        nd = c["nodes"][i]
        deps_objs[i] = Depends(make_fn(env, deps_objs, nd["f"], nd["subs"], nd["sync"]))
    # the actor
    ns = {"Annotated": Annotated, "DEPS": deps_objs, "ENV": env, "MessageDependency": MessageDependency}
    params = []
    for pn, d in c["deps"]:
        ann = f"Annotated[int, DEPS[{d[1]}]]" if d[0] == "n" else "MessageDependency"
        params.append(f"p{pn}: {ann}")
    params.append("x: int = 0")
    kw = ", ".join(f"p{pn}=p{pn}" for pn, _ in c["deps"])
    exec(compile(f"async def actor({', '.join(params)}):\n    ENV.received.append((x, dict({kw})))\n    return 1\n",
                 "<gen>", "exec", dont_inherit=True), ns)  # noqa: S102
    world = World(results=False, args=False)
    await world.declare("q")
    router = Router()
    router.actor(ns["actor"], name="act", queue="q", converter=BasicConverter)
    nodes = [dict(nd) for nd in c["nodes"]]
    obs, runs, k = [], [], 0
    for o in c["ops"]:
        if o[0] == "override":
            _, i, f, subs, sync = o
            deps_objs[i].override(make_fn(env, deps_objs, f, subs, sync))
            nodes[i] = {"f": f, "subs": subs, "sync": sync}
            continue
        k += 1
        env.failing = set(o[1])
        env.calls, env.received = [], []
        mid = f"m{k}"
        p = mk_params(ts=CLOCK.now_us(), max_amount=c["retries"], by=3_600_000_000 if c["by"] else None)
        world.mb.queues["q"].simple.put_nowait(MemMessage(key(mid, "act", "q"), '{"x": 5}', p))
        n_ev = len(world.log.events)
        worker = world.worker([router], messages_limit=1, tasks_limit=1, graceful_shutdown_time=5.0)
        err = None
        try:
            await asyncio.wait_for(worker.run(), 20)
        except Exception as e:  # noqa: BLE001
            err = repr(e)
        await asyncio.sleep(0.02)       # sibling resolutions of a failed gather finish in the background
        ok = bool(env.received)
        calls = sorted([f, len(kw)] + [x for nv in kw for x in nv] for f, kw in env.calls)
        if ok:
            got = sorted([int(kk[1:]), MSGV if isinstance(v, MessageDependency) else v] for kk, v in env.received[0][1].items())
            obs += [1, len(got)] + [x for row in got for x in row]
        else:
            obs += [0, 1]
        obs += [len(calls)] + [x for row in calls for x in row]
        terms = [e for e in world.log.events[n_ev:] if e["kind"] == "broker" and e["id"] == mid]
        runs.append({"ok": ok, "received": env.received[:1], "n_received": len(env.received), "failing": sorted(o[1]),
                     "terminal": [(e["op"], None if e["params"] is None else e["params"].retries.already_tried) for e in terms],
                     "nodes": [dict(nd) for nd in nodes], "err": err, "x": env.received[0][0] if env.received else None,
                     "place": world.place_of("q", mid)})
        # leave the queue clean for the next run
        dq = world.mb.queues["q"]
        while not dq.simple.empty():
            dq.simple.get_nowait()
        dq.delayed.clear()
        dq.dead.clear()
        dq.processing.clear()
    return {"obs": obs, "runs": runs}


def oracle(c: dict, r: dict) -> list:
    bad = []
    for k, run in enumerate(r["runs"]):
        failing = set(run["failing"])
        want = [(pn, ref_resolve(run["nodes"], d, failing)) for pn, d in c["deps"]]
        any_err = any(w[0] == "err" for _, w in want)
        if run["err"]:
            bad.append(("worker_died", run["err"]))
            continue
        if any_err:
            if run["ok"]:
                bad.append(("actor_ran_despite_provider_failure", f"run {k}: a provider raised, the actor was called with {run['received']}"))
            exp_op = "requeue" if (c["retries"] > 0 or c["by"]) else "nack"
            ops = [t[0] for t in run["terminal"]]
            if ops != [exp_op]:
                bad.append(("provider_failure_wrong_disposition", f"run {k}: terminal calls {run['terminal']}, expected one {exp_op}"))
            elif exp_op == "requeue" and c["retries"] > 0 and run["terminal"][0][1] != 1:
                bad.append(("provider_failure_not_counted", f"run {k}: retry carries already_tried={run['terminal'][0][1]}"))
        else:
            if not run["ok"] or run["n_received"] != 1:
                bad.append(("actor_not_run", f"run {k}: all providers succeed, actor invocations: {run['n_received']}"))
                continue
            got = {int(kk[1:]): v for kk, v in run["received"][0][1].items()}
            for pn, w in want:
                v = got.get(pn)
                from repid import MessageDependency
                v = MSGV if isinstance(v, MessageDependency) else v
                if v != w[1]:
                    bad.append(("dependency_value_wrong", f"run {k}: parameter p{pn} received {v}, its provider chain yields {w[1]}"))
            if run["x"] != 5:
                bad.append(("payload_argument_wrong", f"run {k}: payload argument x={run['x']}"))
            if [t[0] for t in run["terminal"]] != (["requeue"] if c["by"] else ["ack"]):
                bad.append(("success_wrong_disposition", f"run {k}: {run['terminal']}"))
    return bad


# ------------------------------------------------------------------ declaration checks
KINDS = ["KPosOnly", "KPosOrKw", "KKwOnly", "KVarPos", "KVarKw"]


def gen_sig(rng) -> list:
    ps = []
    for _ in range(rng.randint(0, 5)):
        k = rng.choice(KINDS)
        dep = rng.random() < 0.45
        default = rng.random() < 0.5 and k not in ("KVarPos", "KVarKw")
        ps.append((k, dep, default))
    # Python's ordering rules: positional-only, positional-or-keyword (no non-default after default), *args, kw-only, **kw
    order = {"KPosOnly": 0, "KPosOrKw": 1, "KVarPos": 2, "KKwOnly": 3, "KVarKw": 4}
    ps.sort(key=lambda p: order[p[0]])
    seen_var, seen_kw, out = False, False, []
    for p in ps:
        if p[0] == "KVarPos":
            if seen_var:
                continue
            seen_var = True
        if p[0] == "KVarKw":
            if seen_kw:
                continue
            seen_kw = True
        out.append(p)
    # no non-default positional after a default positional
    seen_def = False
    fixed = []
    for k, dep, default in out:
        if k in ("KPosOnly", "KPosOrKw"):
            if seen_def and not default:
                default = True
            seen_def = seen_def or default
        fixed.append((k, dep, default))
    return fixed


def declare(ps: list, via_override: bool) -> int:
    from repid import Depends

    async def leaf():
        return 1

    base = Depends(leaf)
    parts, slash_done, star_done = [], False, False
    for idx, (k, dep, default) in enumerate(ps):
        ann = "Annotated[int, BASE]" if dep else "int"
        d = " = 3" if default else ""
        if k != "KPosOnly" and not slash_done and any(p[0] == "KPosOnly" for p in ps[:idx]):
            parts.append("/")
            slash_done = True
        if k == "KVarPos":
            parts.append(f"*a{idx}: {ann}")
            star_done = True
        elif k == "KVarKw":
            parts.append(f"**a{idx}: {ann}")
        elif k == "KKwOnly":
            if not star_done:
                parts.append("*")
                star_done = True
            parts.append(f"a{idx}: {ann}{d}")
        else:
            parts.append(f"a{idx}: {ann}{d}")
    if not slash_done and any(p[0] == "KPosOnly" for p in ps):
        parts.append("/")
    ns = {"Annotated": Annotated, "BASE": base}
    exec(compile(f"async def prov({', '.join(parts)}):\n    return 1\n", "<gen>", "exec", dont_inherit=True), ns)  # noqa: S102
    try:
        if via_override:
            base2 = Depends(leaf)
            base2.override(ns["prov"])
        else:
            Depends(ns["prov"])
    except ValueError as e:
        return 1 if "positional-only" in str(e) else 2
    return 0


def run(ctx: Ctx) -> Result:
    rng = ctx.rng()
    res = Result(rule=RULE)
    res.relations = ["deps_obs: per run, keyword arguments received by the actor (or failure) and the sorted provider calls",
                     "check_obs: acceptance / refusal code of a provider declaration"]
    CLOCK.set(CLOCK.now_us())
    cases = [gen_case(rng) for _ in range(ctx.scale(220, 4000))]
    outs = []

    async def main():
        asyncio.get_running_loop().set_exception_handler(lambda l, c: None)
        for c in cases:
            outs.append(await run_case(c))

    asyncio.run(main())
    coq_cases = []
    for c, r in zip(cases, outs):
        term = case_term(c)
        shared = len({d[1] for nd in c["nodes"] for _, d in nd["subs"] if d[0] == "n"}) < sum(1 for nd in c["nodes"] for _, d in nd["subs"] if d[0] == "n")
        nested = any(d[0] == "n" and c["nodes"][d[1]]["subs"] for nd in c["nodes"] for _, d in nd["subs"])
        nontrivial = shared or nested or any(o[0] == "override" or o[1] for o in c["ops"])
        res.add_case(term, nontrivial)
        res.count("runs", len(r["runs"]))
        res.count("runs_with_failing_provider", sum(1 for x in r["runs"] if x["failing"]))
        res.count("overrides", sum(1 for o in c["ops"] if o[0] == "override"))
        res.count("sync_providers", sum(1 for nd in c["nodes"] if nd["sync"]))
        coq_cases.append((term, r["obs"]))
        seen = set()
        for kind, what in oracle(c, r):
            if kind not in seen:
                seen.add(kind)
                res.failures.append(Failure(kind, what, {"case": c}, None))
    res.samples = [{"coq": coq_cases[0][0][:800], "impl_obs": coq_cases[0][1][:80]}]
    bad, mo = runmodel.run_cases("c18", "Deps", "deps_obs", coq_cases, shard=200)
    for i in bad:
        res.mismatches.append({"relation": "deps_obs", "case": cases[i], "coq": coq_cases[i][0][:3000],
                               "impl_obs": coq_cases[i][1][:300], "model_obs": (mo.get(i) or [])[:300]})
    res.model_cases += len(coq_cases)
    res.traces_validated += len(coq_cases) - len(bad)
    # (b) declarations
    sigs = [gen_sig(rng) for _ in range(ctx.scale(1500, 20000))]
    dcases = []
    for ps in sigs:
        via = rng.random() < 0.4
        code = declare(ps, via)
        term = ct.lst(f"(mkDP {k} {ct.B(dep)} {ct.B(df)})" for k, dep, df in ps)
        res.add_case("sig:" + term, bool(ps))
        res.count(f"declaration_code_{code}")
        dcases.append((term, [code]))
        # model-free oracle
        want = 0
        for k, dep, df in ps:
            if k == "KPosOnly" and dep:
                want = 1
                break
            if k in ("KPosOrKw", "KKwOnly") and dep:
                continue
            if not df:
                want = 2
                break
        if want != code:
            kind = "unsupported_declaration_accepted" if code == 0 else "declaration_check_wrong"
            res.failures.append(Failure(kind, f"signature {ps}: declaration answered {code}, expected {want}", {"sig": ps, "via_override": via}, None))
    bad, mo = runmodel.run_cases("c18d", "Deps", "check_obs", dcases, shard=500)
    for i in bad:
        res.mismatches.append({"relation": "check_obs", "coq": dcases[i][0], "impl_obs": dcases[i][1], "model_obs": mo.get(i)})
    res.model_cases += len(dcases)
    res.traces_validated += len(dcases) - len(bad)
    return res


def replay(ctx: Ctx, rp: dict) -> dict:
    case = rp.get("case") or rp.get("first_diverging_case", {}).get("case")
    if case and "sig" in case:
        ps = [tuple(p) for p in case["sig"]]
        return {"declaration_code": declare(ps, case.get("via_override", False)), "fails": True}
    c = case["case"] if "case" in case else case
    c["nodes"] = [{"f": nd["f"], "subs": [(n, tuple(d)) for n, d in nd["subs"]], "sync": nd["sync"]} for nd in c["nodes"]]
    c["deps"] = [(n, tuple(d)) for n, d in c["deps"]]
    c["ops"] = [tuple(o[:3]) + ([(n, tuple(d)) for n, d in o[3]], o[4]) if o[0] == "override" else (o[0], o[1]) for o in c["ops"]]
    CLOCK.set(CLOCK.now_us())
    r = asyncio.run(run_case(c))
    o = oracle(c, r)
    return {"oracle": o[:10], "fails": bool(o)}
