"""C16 — message handles are single-use and respect their category."""
from __future__ import annotations

import itertools

from .. import coqterm as ct
from .. import runmodel
from ..common import Ctx, Failure, Result
from ..vloop import run_virtual
from .. import procrun as pr

RULE = ("call sequences over {ack,nack,reject,reschedule,retry,force_retry,set_result,set_exception,add_callback} on real "
        "Message objects (queue iteration, 3 categories) and real MessageDependency objects inside actors run by a real Worker; "
        "exhaustive up to a length (see input_distribution), then seeded random longer ones with injected broker/callback "
        "failures; distinct by printed Coq case; non-trivial = the sequence contains a terminal call")
TRUSTED = ["in-memory broker subclassed at the public broker API to record calls and inject failures"]
ASSUMPTIONS = ["actors catch the exceptions API calls raise (ValueError, broker/callback errors) and continue; _NoAction is not caught",
               "retry policies are total functions"]
S = pr.S
RETRY_STATES = [(2, 0), (2, 2), (0, 0)]     # (max, tried): budget left, spent, none


def _alphabet(dep: bool):
    a = [("ack", None, False), ("nack", None, False), ("reject", None, False), ("reschedule", None, False),
         ("retry", None, False), ("force_retry", 3 * S, False)]
    if dep:
        a += [("set_result", 11, False), ("set_exception", 77, False), ("add_callback", (1, False), False)]
    return a


def _renumber(calls):
    out, k = [], 1
    for name, arg, bf in calls:
        if name == "add_callback":
            arg = (k, arg[1])
            k += 1
        out.append((name, arg, bf))
    return out


def oracle(case: dict, r: dict, dep: bool) -> list[tuple[str, str]]:
    """The property's own predicate on the implementation's event log."""
    bad = []
    ev = [e for e in r["events"] if e["kind"] in ("api", "broker", "callback", "store")
          and not (e["kind"] == "broker" and e["op"] == "enqueue")]
    mx, tried = case["params"]["max"], case["params"]["tried"]
    cat = case.get("cat", 0)
    ok_calls = [e for e in ev if e["kind"] == "broker" and e["ok"] and e["op"] in ("ack", "nack", "reject", "requeue")]
    # (handle-level sequences only: in process cases the worker's own report is a further, legitimate source)
    n_handle_ok = len(ok_calls) - (1 if r.get("reported") else 0)
    if n_handle_ok > 1:
        bad.append(("second_terminal_action_succeeds", "two terminal actions reached the broker through one handle"))
    # walk the API calls in order, with the broker events each produced
    spent = False
    i = 0
    api_idx = [k for k, e in enumerate(ev) if e["kind"] == "api"]
    calls = case["calls"]
    # events between API results belong to the call that ended there; a call interrupted by an exception logs nothing
    # so alignment is by scanning: reconstruct per-call outcome from the model-free rules instead
    pos = 0
    for name, arg, bfail in calls:
        seg = []
        while pos < len(ev):
            e = ev[pos]
            pos += 1
            seg.append(e)
            if e["kind"] == "api" and e["res"] in ("done", "refused", "noaction") and e.get("call", name) == name and e["res"] != "noaction":
                break
            if e["kind"] == "api" and e["res"] == "noaction":
                break
            if e["kind"] == "broker" and not e["ok"]:
                break                       # injected failure: the call raised, nothing else is logged
        brk = [e for e in seg if e["kind"] == "broker"]
        refused = any(e["kind"] == "api" and e["res"] == "refused" for e in seg)
        if name in pr.TERMINAL:
            must_refuse = spent or (cat != 0 and name in ("nack", "retry", "force_retry")) or (name == "retry" and tried >= mx)
            if must_refuse:
                if brk or not refused:
                    bad.append(("refusal_missing:" + ("spent" if spent else "category" if cat != 0 and name != "retry" or (cat != 0) else "budget"),
                                f"{name} on a {'spent handle' if spent else 'message it must refuse'} was not refused or reached the broker"))
            else:
                if refused or not brk:
                    bad.append(("usable_handle_refused", f"{name} was refused although the handle was fresh and the call allowed"))
                elif brk[0]["ok"]:
                    spent = True
                    if dep:
                        # callbacks in registration order, store at the position of the latest set_* call
                        exp = expected_callbacks(calls[:calls.index((name, arg, bfail))] if (name, arg, bfail) in calls else [], case)
                        got = [("cb", e["cb"]) if e["kind"] == "callback" else ("store",) for e in seg if e["kind"] in ("callback", "store")]
                        # every callback runs, failing or not
                        if got != exp:
                            bad.append(("callback_order", f"callbacks ran as {got}, expected {exp}"))
                        if any(e["kind"] == "api" and e["res"] == "noaction" for e in seg):
                            if pos < len([x for x in ev if x["kind"] == "api"]) and any(e["kind"] == "api" for e in ev[pos:]):
                                bad.append(("body_continues_after_eager", "API calls were made after _NoAction"))
                            return bad
        else:
            if brk:
                bad.append(("nonterminal_reaches_broker", f"{name} caused a broker call"))
    return bad


def expected_callbacks(prefix, case) -> list:
    """Registration order with the store at the index of the latest accepted set_* call."""
    cbs, lazy = [], None
    has_result = case["params"].get("result") is not None and case.get("rbb", True)
    for name, arg, _ in prefix:
        if name == "add_callback":
            cbs.append(("cb", arg[0]))
        elif name in ("set_result", "set_exception") and has_result:
            lazy = len(cbs)
    if lazy is not None:
        cbs = cbs[:lazy] + [("store",)] + cbs[lazy:]
    return cbs


def run(ctx: Ctx) -> Result:
    rng = ctx.rng()
    res = Result(rule=RULE)
    res.relations = ["hcase_obs (plain Message, queue iteration)", "pcase_obs (MessageDependency inside an actor, via Worker)"]
    intern = ct.Interner()
    hcases, pcases = [], []

    # ---- plain Message: exhaustive up to length L over the six terminal calls ----
    L = ctx.scale(3, 4)
    seqs = [s for n in range(1, L + 1) for s in itertools.product(_alphabet(False), repeat=n)]
    for cat in (0, 1, 2):
        for mx, tried in RETRY_STATES:
            for s in seqs:
                hcases.append({"cat": cat, "params": {"max": mx, "tried": tried, "by": 10 * S if (len(s) + cat) % 2 else None, "ts": -S},
                               "pol": ("const", 5 * S), "calls": list(s)})
    res.count(f"standalone_exhaustive_len<={L}", len(hcases))
    n_rand = ctx.scale(300, 3000)
    for _ in range(n_rand):
        hcases.append({"cat": rng.choice([0, 0, 1, 2]), "params": pr.gen_params_spec(rng, result=False),
                       "pol": pr.gen_pol(rng), "calls": pr.gen_calls(rng, rng.randint(1, 7), dep=False)})
    res.count("standalone_random_with_faults", n_rand)

    # ---- MessageDependency inside an actor ----
    Ld = ctx.scale(2, 3)
    dseqs = [s for n in range(1, Ld + 1) for s in itertools.product(_alphabet(True), repeat=n)]
    for mx, tried in RETRY_STATES:
        for result in (("r", 60 * S), None):
            for s in dseqs:
                pcases.append({"params": {"max": mx, "tried": tried, "result": result, "ts": -S, "timeout": 5 * S},
                               "pol": ("const", 5 * S), "calls": _renumber(s), "fin": ("return", 5), "rbb": True})
    res.count(f"actor_exhaustive_len<={Ld}", len(pcases))
    # ---- callback order: several set_result / set_exception calls with callbacks registered before, between and after
    # them, then an eager action: the store takes the place of the LATEST set_* call
    order_cases = []
    for k in (2, 3):
        for kinds in itertools.product(("set_result", "set_exception"), repeat=k):
            for gaps in itertools.product((False, True), repeat=k + 1):
                if not any(gaps[1:k]):
                    continue            # at least one callback between two set_* calls
                for term in pr.TERMINAL:
                    calls, v = [], 10
                    for i in range(k + 1):
                        if gaps[i]:
                            calls.append(("add_callback", (0, False), False))
                        if i < k:
                            v += 1
                            calls.append((kinds[i], v if kinds[i] == "set_result" else 50 + v, False))
                    calls.append((term, None, False))
                    order_cases.append({"params": {"max": 2, "tried": 0, "result": ("r", 60 * S), "ts": -S, "timeout": 5 * S},
                                        "pol": ("const", 5 * S), "calls": _renumber(calls), "fin": ("return", 5), "rbb": True})
    rng.shuffle(order_cases)
    order_cases = order_cases[:ctx.scale(300, 3000)]
    pcases += order_cases
    res.count("actor_callback_order_family", len(order_cases))
    n_rand = ctx.scale(400, 4000)
    for _ in range(n_rand):
        calls = _renumber(pr.gen_calls(rng, rng.randint(2, 8), dep=True))
        rbb = rng.random() < 0.85
        spec = pr.gen_params_spec(rng)
        pcases.append({"params": spec, "pol": pr.gen_pol(rng), "calls": calls, "rbb": rbb,
                       "fin": rng.choice([("return", 5), ("raise", 60)]),
                       "store_fails": rbb and rng.random() < 0.1})
    res.count("actor_random_with_faults", n_rand)

    out_h, out_p = [], []

    async def main(loop):
        loop.set_exception_handler(lambda l, c: None)
        for c in hcases:
            out_h.append(await pr.run_handle_case(c, loop, intern))
        for c in pcases:
            out_p.append(await pr.run_process_case(c, loop, intern))

    run_virtual(main)

    for c, r in zip(hcases, out_h):
        nontrivial = any(x[0] in pr.TERMINAL for x in c["calls"])
        res.add_case(r["term"], nontrivial)
        for kind, what in oracle(c, r, dep=False):
            res.failures.append(Failure(kind, what, {"mode": "standalone", **c}, r["obs"]))
    for c, r in zip(pcases, out_p):
        res.add_case(r["term"], any(x[0] in pr.TERMINAL for x in c["calls"]))
        r["reported"] = not any(e["kind"] == "api" and e["res"] == "noaction" for e in r["events"]) and \
            any(e["ok"] for e in r["terminal_all"][-1:])
        # the worker's own report is the last broker call when no _NoAction was raised
        for kind, what in oracle(c, r, dep=True):
            res.failures.append(Failure(kind, what, {"mode": "actor", **c}, r["obs"]))
    res.samples = [{"coq": out_h[0]["term"], "impl_obs": out_h[0]["obs"]},
                   {"coq": out_p[len(out_p) // 2]["term"], "impl_obs": out_p[len(out_p) // 2]["obs"]},
                   {"coq": out_p[-1]["term"], "impl_obs": out_p[-1]["obs"]}]
    bad, mo = runmodel.run_cases("c16h", "Sched Handle", "hcase_obs", [(r["term"], r["obs"]) for r in out_h])
    for i in bad:
        res.mismatches.append({"relation": "hcase_obs", "case": hcases[i], "coq": out_h[i]["term"],
                               "impl_obs": out_h[i]["obs"], "model_obs": mo.get(i)})
    bad, mo = runmodel.run_cases("c16p", "Sched Handle Ladder", "pcase_obs", [(r["term"], r["obs"]) for r in out_p])
    for i in bad:
        res.mismatches.append({"relation": "pcase_obs", "case": pcases[i], "coq": out_p[i]["term"],
                               "impl_obs": out_p[i]["obs"], "model_obs": mo.get(i)})
    res.model_cases = len(out_h) + len(out_p)
    res.traces_validated = res.model_cases - len(res.mismatches)
    res.exhaustive = False
    return res


def replay(ctx: Ctx, rp: dict) -> dict:
    case = rp.get("case") or rp.get("first_diverging_case", {}).get("case")
    intern = ct.Interner()
    out = {}

    async def main(loop):
        loop.set_exception_handler(lambda l, c: None)
        c = {k: (tuple(v) if k == "pol" else v) for k, v in case.items() if k != "mode"}
        c["calls"] = [(n, tuple(a) if isinstance(a, list) else a, b) for n, a, b in c["calls"]]
        if "fin" in c:
            c["fin"] = tuple(c["fin"])
        if c["params"].get("result") is not None:
            c["params"]["result"] = tuple(c["params"]["result"])
        if case.get("mode") == "standalone" or "cat" in case:
            r = await pr.run_handle_case(c, loop, intern)
            dep = False
        else:
            r = await pr.run_process_case(c, loop, intern)
            r["reported"] = not any(e["kind"] == "api" and e["res"] == "noaction" for e in r["events"]) and \
                any(e["ok"] for e in r["terminal_all"][-1:])
            dep = True
        out.update({"coq": r["term"], "impl_obs": r["obs"], "oracle": oracle(c, r, dep)})

    run_virtual(main)
    out["fails"] = bool(out["oracle"])
    return out
