"""C15 — within a queue and priority, delivery is first-in first-out (in-memory broker)."""
from ..common import Ctx, Failure, Result
from .. import memrun
from . import _mem, _redis
from . import _rabbit

S = memrun.S
RULE = ("histories with ONE normal consumer per queue (with or without a topic filter; delayed- and dead-category consumers "
        "next to it): backlogs of 0..35 immediately deliverable messages of matching and foreign topics and mixed priorities, "
        "enqueues interleaved with consumes so that the backlog stays non-empty, rejects and consumer restarts returning "
        "messages, a few delayed and expiring messages mixed in; distinct by the printed Coq op list; non-trivial = at least "
        "three deliveries to the normal consumer, with a return or an interleaved enqueue among them")
TRUSTED = ["brokers: in-memory (concurrent histories, cancellation), Redis client over harness/fakeredis.py = coq/RedisSrv.v (sequential histories of one client), RabbitMQ client over harness/fakeamqp.py = coq/AmqpSrv.v (sequential histories, fixed callback schedule); RedisSrv.v and AmqpSrv.v are descriptions of the servers written from their documentation, not compared with real servers (none available)",
           "the in-memory broker ignores priorities (one FIFO list per queue), so FIFO holds across priorities as well"]
ASSUMPTIONS = ["a single normal consumer is attached to the queue (the property's premise)",
               "clients are well-behaved (fresh ids, terminal actions on held messages)"]
WHICH = {"C15"}


def gen(rng, n_ops: int) -> dict:
    queues = [1, 2] if rng.random() < 0.3 else [1]
    consumers = {1: (1, 0, rng.choice([None, None, [1], [1, 2]])), 3: (1, rng.choice([1, 2]), None)}
    if 2 in queues:
        consumers[2] = (2, 0, rng.choice([None, [2]]))
    ops, known, nid = [], {}, 1

    def put(extra_delay=True):
        nonlocal nid
        q, t = rng.choice(queues), rng.choice([1, 1, 2, 3])
        sp = {}
        r = rng.random()
        if extra_delay and r < 0.08:
            sp["next"] = rng.choice([-1, 1500, 20_000])
        elif extra_delay and r < 0.14:
            sp["ttl"] = rng.choice([2000, 30_000])
        ops.append({"op": "put", "id": nid, "queue": q, "topic": t, "prio": rng.choice([0, 5, 5, 9]), "params": sp})
        known[nid] = (q, t)
        nid += 1

    for _ in range(rng.randint(0, 35)):
        put()
    for _ in range(n_ops):
        r = rng.random()
        if r < 0.25:
            put()
        elif r < 0.65:
            ops.append({"op": "consume", "c": rng.choice([1, 1, 1] + list(consumers)), "timeout": rng.choice([0.0005, 0.0035, 0.0105, 0.04])})
        elif r < 0.85:
            ops.append({"op": "terminal"})
        elif r < 0.90:
            ops.append({"op": "finish", "c": rng.choice(list(consumers))})
        else:
            ops.append({"op": "tick", "d": rng.choice([0, 500, 1000, 3000])})
    return {"queues": queues, "consumers": consumers, "ops": ops, "known": known,
            "terminal_kinds": ["ack", "ack", "nack", "reject", "reject", "reject"]}


def fifo(hist: dict, r: dict) -> list:
    """Arrival order = order of enqueue of immediately deliverable messages and of returns to the waiting list.  A delivery
    to the queue's normal consumer may not overtake a waiting, matching, live message that arrived earlier."""
    bad = []
    cspec = hist["consumers"]
    arrival, n_arr = {}, 0
    due, expiry = {}, {}
    prev_places = {}
    for n, e in enumerate(r["trace"]):
        places, msgs = e["after"]["places"], e["after"]["msgs"]
        where = {"step": n, "op": {k: v for k, v in e.items() if k not in ("after", "params", "got", "polls")}}
        if e["op"] in ("put", "requeue") and e.get("applied"):
            i = e["id"]
            due[i] = _mem.due_of(e["params"], e["t"])
            expiry[i] = _mem.expiry_of(e["params"])
            arrival.pop(i, None)
            if due[i] is None:
                arrival[i] = n_arr
                n_arr += 1
        elif e["op"] in ("reject", "finish"):
            ids = [e["id"]] if e["op"] == "reject" else sorted(
                e["returned"], key=lambda i: (places.get(i) or [("", 0, 0)])[0][2] if (places.get(i) or [("",)])[0][0] == "simple" else 0)
            for i in ids:
                pl = places.get(i)
                was = prev_places.get(i)
                if pl and pl[0][0] == "simple" and was and was[0][0] == "held" and due.get(i) is None:
                    arrival[i] = n_arr
                    n_arr += 1
        elif e["op"] == "consume" and cspec[e["c"]][1] == 0 and e["delivered"]:
            i = e["delivered"]
            q, _, topics = cspec[e["c"]]
            t = e["polls"][-1][0] if e["polls"] else e["t"]
            if i in arrival:
                for j, a in arrival.items():
                    if j == i or a >= arrival[i]:
                        continue
                    pl = prev_places.get(j)
                    if not pl or pl[0][0] != "simple" or pl[0][1] != q:
                        continue
                    if topics is not None and msgs[j][2] not in topics:
                        continue
                    if expiry.get(j) is not None and expiry[j] < t:
                        continue
                    if msgs[j] is not None and msgs[i] is not None:
                        bad.append(("overtaken", f"message {i} (arrival {arrival[i]}) delivered while message {j} (arrival {a}) "
                                    "of a matching topic was waiting", where))
                        break
        prev_places = places
    return bad


def nontrivial(h: dict, r: dict) -> bool:
    seq = [e["op"] for e in r["trace"] if e["op"] in ("put", "reject", "finish") or
           (e["op"] == "consume" and e["delivered"] and h["consumers"][e["c"]][1] == 0)]
    n_del = seq.count("consume")
    if n_del < 3:
        return False
    first = seq.index("consume")
    return any(x != "consume" for x in seq[first:])


def run(ctx: Ctx) -> Result:
    rng = ctx.rng()
    res = Result(rule=RULE)
    res.relations = ["mem_obs: delivered id per poll, order of the waiting list after every call"]
    hists = [gen(rng, rng.randint(10, 60)) for _ in range(ctx.scale(600, 10000))]
    outs = _mem.run_histories(ctx, res, "c15", hists, WHICH, rng, nontrivial=nontrivial)
    for h, r in zip(hists, outs):
        seen = set()
        for kind, what, where in fifo(h, r) + _mem.due_overtaken(h, r):
            if kind not in seen:
                seen.add(kind)
                res.failures.append(Failure(kind, what, {"history": _mem.strip(h), "where": where}, None))
    _redis.run_seq(ctx, res, "c15r", {"C15"}, "fifo", 150, 3000, rng)
    _rabbit.run_seq(ctx, res, "c15q", {"C15"}, "fifo", 120, 2500, rng, fifo=True)
    return res


def replay(ctx: Ctx, rp: dict) -> dict:
    return _mem.replay_history(ctx, rp, WHICH, extra=fifo)
