"""C19 — schedule arithmetic: correspondence of Sched.v with retry_policy.py / _parameters.py /
_buckets.py / job.py under a pinned clock, plus the property's own predicate on every output."""
from __future__ import annotations

from datetime import timedelta

from .. import coqterm as ct
from .. import runmodel
from ..clock import CLOCK, install
from ..common import Ctx, Failure, Result
from ..pyparams import enc_params, mk_params, params_term

RULE = ("cases = (function, integer-microsecond inputs) drawn from a boundary grid (now before/at/after the time base, "
        "exact multiples of the period +-1us, periods 1s..years, ttl boundary +-1us) and a seeded PRNG; distinct by the "
        "printed Coq term; non-trivial = back-off not clamped by both min and max / periodic or deferred parameters / "
        "ttl present")
TRUSTED = ["timedelta//timedelta, timedelta*int, datetime+timedelta are exact integer operations (CPython)",
           "harness/translate.py (Python ast -> Gallina, fail-closed) and its conventions: datetime.now() = parameter now, times in integer "
           "microseconds, cron = None, deepcopy = identity, object.__setattr__ = functional update"]
ASSUMPTIONS = ["cron schedules are not modelled (croniter is not installed)"]
S = 1_000_000


def _cases_backoff(rng, n_random):
    out = []
    grids = [(10, 86400, 5, 15), (1, 1, 1, 1), (1, 10**9, 1, 40), (3, 7, 2, 1), (100, 100, 7, 3),
             (1, 10**9, 10**6, 5), (5, 10**9, 3, 64)]
    for g in grids:
        for n in list(range(1, 22)) + [g[3] - 1, g[3], g[3] + 1, 63, 64, 65, 1000]:
            if n >= 1:
                out.append(g + (n,))
    for _ in range(n_random):
        minb = rng.choice([1, 2, 10, rng.randint(1, 10**5)])
        maxb = rng.choice([minb, minb + 1, rng.randint(minb, 10**9), 10**9])
        mult = rng.choice([1, 2, 5, rng.randint(1, 10**4)])
        maxexp = rng.choice([1, 2, 15, rng.randint(1, 70)])
        n = rng.choice([1, 2, 3, maxexp, maxexp + 1, rng.randint(1, 200)])
        out.append((minb, maxb, mult, maxexp, n))
    return out


def _time_points(rng, ts, by):
    pts = []
    for k in (-2, -1, 0, 1, 2, 3, 7, 1000):
        for d in (-1, 0, 1):
            pts.append(ts + k * by + d)
    pts += [ts + rng.randint(-5 * by, 50 * by) for _ in range(4)]
    return pts


def run(ctx: Ctx) -> Result:
    install()
    from repid.connections.in_memory.utils import wait_until as mem_wait
    from repid.data._buckets import ArgsBucket, ResultBucket
    from repid.retry_policy import default_retry_policy_factory

    try:
        from repid.connections.rabbitmq.utils import wait_until as rabbit_wait
    except Exception:  # noqa: BLE001
        rabbit_wait = None
    try:
        from repid.connections.redis.utils import wait_timestamp as redis_wait
    except Exception:  # noqa: BLE001
        redis_wait = None

    rng = ctx.rng()
    res = Result(rule=RULE)
    res.relations = ["sched_obs = (retry policy | compute_next_execution_time | is_overdue x4 | _prepare_retry | "
                     "_prepare_reschedule | wait_until x2 | wait_timestamp)"]
    intern = ct.Interner()
    cases: list[tuple[str, list[int]]] = []
    meta: list[dict] = []

    def add(term, obs, m, nontrivial=True):
        cases.append((term, obs))
        meta.append(m)
        res.add_case(term, nontrivial)
        res.count(m["fn"])

    def fail(kind, what, m, detail=None):
        res.failures.append(Failure(kind=kind, what=what, case=m, detail=detail))

    # ---- back-off ----
    prev: dict = {}
    for (minb, maxb, mult, maxexp, n) in _cases_backoff(rng, ctx.scale(1500, 30000)):
        m = {"fn": "backoff", "min": minb, "max": maxb, "mult": mult, "maxexp": maxexp, "n": n}
        try:
            td = default_retry_policy_factory(minb, maxb, mult, maxexp)(n)
            b = ct.us_of_td(td)
        except Exception as e:  # noqa: BLE001
            fail("backoff_raises", f"default retry policy raised {type(e).__name__}", m)
            continue
        raw = mult * 2 ** min(n, maxexp)
        add(f"(CBackoff {minb} {maxb} {mult} {maxexp} {n})", [b], m, nontrivial=(minb < raw < maxb) or n <= maxexp)
        if not (minb * S <= b <= maxb * S):
            fail("backoff_out_of_range", "back-off outside [min_backoff, max_backoff]", m, b)
        key = (minb, maxb, mult, maxexp)
        prev.setdefault(key, []).append((n, b))
    for key, lst in prev.items():
        lst.sort()
        for (n1, b1), (n2, b2) in zip(lst, lst[1:]):
            if b1 > b2:
                fail("backoff_not_monotone", "back-off decreases with the retry number",
                     {"fn": "backoff", "params": key, "n1": n1, "n2": n2}, (b1, b2))

    # ---- next execution time / prepare_* / wait_until ----
    periods = [1 * S, 1 * S + 1, 10 * S, 60 * S, 3600 * S, 86400 * S, 365 * 86400 * S, 7 * S + 333_333]
    bases = [1_700_000_000 * S, 1_700_000_000 * S + 999_999, 1_600_000_000 * S + 500_000]
    n_extra = ctx.scale(40, 600)
    combos = [(ts, by) for ts in bases for by in periods]
    combos += [(rng.randint(10**15, 2 * 10**15), rng.randint(S, 10**13)) for _ in range(n_extra)]
    for ts, by in combos:
        for now in _time_points(rng, ts, by):
            if now < 0:
                continue
            variants = [(u, x) for u in (None, now - 1, now, now + 1, now + rng.randint(2, 10 * by))
                        for x in (None, now + rng.randint(-by, by))]
            for until, nxt in [variants[0]] + rng.sample(variants[1:], 3):
                if True:
                    use_by = by if rng.random() < 0.85 else None
                    p = mk_params(until=until, by=use_by, nxt=nxt, ts=ts, tried=rng.randint(0, 3), max_amount=rng.randint(0, 3),
                                  ttl=rng.choice([None, by]), result=rng.choice([None, ("r1", None), ("r2", 5 * S)]))
                    CLOCK.set(now)
                    pt = params_term(p, intern)
                    m = {"fn": "compute_next", "ts": ts, "by": use_by, "until": until, "next": nxt, "now": now}
                    got = p.compute_next_execution_time
                    g = None if got is None else ct.us_of_dt(got)
                    add(f"(CNext {pt} {ct.Z(now)})", ct.enc_optZ(g), m, nontrivial=use_by is not None or until is not None)
                    # property predicate
                    if until is not None and until > now:
                        if g != until:
                            fail("next_ignores_deferred_until", "next execution time is not deferred_until while that is ahead", m, g)
                    elif use_by is not None:
                        if g is None or not (now < g <= now + use_by) or (g - ts) % use_by != 0:
                            fail("next_off_grid_or_out_of_window", "periodic next execution time violates now < next <= now+period on the grid", m, g)
                    elif g is not None:
                        fail("next_spurious", "non-periodic job got a next execution time", m, g)
                    # prepare_retry / prepare_reschedule / wait_until
                    back = rng.choice([0, 10 * S, rng.randint(0, 10**10)])
                    pr = p._prepare_retry(timedelta(microseconds=back))
                    add(f"(CRetry {pt} {ct.Z(now)} {ct.Z(back)})", enc_params(pr, intern), {**m, "fn": "prepare_retry", "back": back})
                    ps = p._prepare_reschedule()
                    add(f"(CResched {pt} {ct.Z(now)})", enc_params(ps, intern), {**m, "fn": "prepare_reschedule"})
                    w = mem_wait(p)
                    add(f"(CWait {pt} {ct.Z(now)})", ct.enc_optZ(None if w is None else ct.us_of_dt(w)), {**m, "fn": "mem.wait_until"})
                    if rabbit_wait is not None:
                        w = rabbit_wait(p)
                        add(f"(CWait {pt} {ct.Z(now)})", ct.enc_optZ(None if w is None else ct.us_of_dt(w)), {**m, "fn": "rabbit.wait_until"})
                    wv = mem_wait(p)
                    # int(datetime.timestamp()) is modelled as floor(us / 10^6): exact while the instant is below
                    # 2^32 s (year 2106), where half an ulp of the float is < 1 us; later instants are not generated
                    if redis_wait is not None and (wv is None or ct.us_of_dt(wv) < 2**32 * S):
                        w = redis_wait(p)
                        add(f"(CWaitS {pt} {ct.Z(now)})", ct.enc_optZ(w), {**m, "fn": "redis.wait_timestamp"})

    # ---- expiry: the four is_overdue sites ----
    from repid.job import Job
    import repid

    class _Conn:  # Job only reads these two attributes at construction
        args_bucket_broker = None
        results_bucket_broker = None

    ttls = [None, 1 * S, 1 * S + 1, 60 * S, 86400 * S, 100 * 365 * 86400 * S]
    ttls += [rng.randint(S, 10**14) for _ in range(ctx.scale(40, 600))]
    for ttl in ttls:
        for ts in (bases[0], bases[1], rng.randint(10**15, 2 * 10**15)):
            deltas = [-10**9, -1, 0, 1, 10**9] if ttl is None else [ttl - 10**6, ttl - 1, ttl, ttl + 1, ttl + 10**6, 0, -5]
            for d in deltas:
                now = ts + d
                CLOCK.set(now)
                tdl = None if ttl is None else timedelta(microseconds=ttl)
                p = mk_params(ts=ts, ttl=ttl)
                ab = ArgsBucket(data="x", timestamp=ct.dt_of_us(ts), ttl=tdl)
                rb = ResultBucket(data="x", started_when=1, finished_when=2, timestamp=ct.dt_of_us(ts), ttl=tdl)
                CLOCK.set(ts)
                job = Job("j", queue=repid.Queue("q", _connection=_Conn()), ttl=tdl, _connection=_Conn())
                CLOCK.set(now)
                term = f"(COverdue {ct.Z(ts)} {ct.opt(ttl)} {ct.Z(now)})"
                want = ttl is not None and now > ts + ttl
                for name, obj in (("Parameters", p), ("ArgsBucket", ab), ("ResultBucket", rb), ("Job", job)):
                    got = bool(obj.is_overdue)
                    m = {"fn": f"{name}.is_overdue", "ts": ts, "ttl": ttl, "now": now}
                    add(term, [1 if got else 0], m, nontrivial=ttl is not None)
                    if got != want:
                        fail("overdue_wrong", f"{name}.is_overdue differs from now > timestamp + ttl", m, got)

    res.samples = [{"coq": cases[i][0], "impl_obs": cases[i][1], "meta": meta[i]} for i in
                   sorted({0, len(cases) // 3, len(cases) // 2, len(cases) - 1})]
    bad, model_obs = runmodel.run_cases("c19", "Sched", "sched_obs", cases)
    res.model_cases = len(cases)
    res.traces_validated = len(cases) - len(bad)
    for i in bad:
        res.mismatches.append({"relation": "sched_obs", "case": meta[i], "coq": cases[i][0],
                               "impl_obs": cases[i][1], "model_obs": model_obs.get(i)})
    return res


def replay(ctx: Ctx, rp: dict) -> dict:
    install()
    res = run(ctx)
    kinds = {f.kind for f in res.failures}
    return {"fails": rp.get("kind") in kinds or (rp.get("kind") == "correspondence" and bool(res.mismatches)),
            "kinds_seen": sorted(kinds), "mismatches": len(res.mismatches)}
