"""C02 — every delivery ends in exactly one, correct disposition."""
from __future__ import annotations

from .. import coqterm as ct
from .. import runmodel
from ..common import Ctx, Failure, Result
from ..vloop import run_virtual
from .. import procrun as pr

RULE = ("one case = one delivery handled by a real Worker on the recording in-memory broker: cross product of actor endings "
        "(return, raise, timeout, input-conversion failure, output-conversion failure, dependency failure) and eager responses (6 actions x result/"
        "exception/callbacks, incl. failing ones) x retry states x recurring x result on/off x Basic/Pydantic converter, plus "
        "mixes of up to 8 such deliveries processed concurrently by one worker; distinct by printed Coq case; non-trivial = "
        "the delivery reached a disposition decision (always) ")
TRUSTED = ["in-memory broker subclassed at the public broker API to record calls and inject failures"]
ASSUMPTIONS = ["actor bodies end (return/raise) or are stopped by the time limit; callbacks may raise Exception, not BaseException"]
S = pr.S
RETRY_STATES = [(0, 0), (1, 0), (1, 1), (3, 1), (3, 3), (3, 4), (0, 2)]


def expected_decision(case, r):
    """The table of the property, computed from the case alone (None when an eager action ended the delivery)."""
    p = case["params"]
    success = case["fin"][0] == "return"
    if not success and p["tried"] < p["max"]:
        return "retry"
    if p.get("by") is not None:
        return "resched"
    return "ack" if success else "nack"


def oracle(case, r, intern) -> list[tuple[str, str]]:
    bad = []
    ok = r["terminal_ok"]
    injected_broker = any(c[2] for c in case["calls"]) or case.get("report_fails")
    cb_failed = any(e["kind"] in ("callback", "store") and not e["ok"] for e in r["events"])
    eager_ok = [e for e in ok if True]
    if r["run_error"]:
        bad.append(("worker_died", f"Worker.run raised {r['run_error']}"))
    if not injected_broker and len(ok) != 1:
        # which call came from the handle (before _NoAction / before the body ended)?
        if len(ok) == 2 and cb_failed:
            bad.append(("second_disposition_after_eager_callback_failure",
                        "a callback or the result store raised after an eager action: the worker applied a second terminal action"))
        else:
            bad.append(("terminal_count", f"{len(ok)} terminal broker calls for one delivery"))
        return bad
    if injected_broker:
        return bad
    e = ok[0]
    if r["noaction"]:
        # nothing more after an eager response: the single call is the actor's own
        api_idx = next(i for i, x in enumerate(r["events"]) if x["kind"] == "api" and x["res"] == "noaction")
        brk_idx = r["events"].index(e)
        if brk_idx > api_idx:
            bad.append(("report_after_eager", "a broker call was made after the eager response"))
        return bad
    want = expected_decision(case, r)
    p = r["params"]
    got = e["op"]
    if want in ("ack", "nack"):
        if got != want:
            bad.append(("wrong_disposition", f"expected {want}, worker did {got}"))
    else:
        if got != "requeue":
            bad.append(("wrong_disposition", f"expected requeue({want}), worker did {got}"))
        else:
            q = e["params"]
            if want == "retry":
                back = ct.us_of_td(pr.make_policy(case["pol"])(retry_number=p.retries.already_tried + 1))
                if q.retries.already_tried != p.retries.already_tried + 1 or \
                        q.delay.next_execution_time is None or ct.us_of_dt(q.delay.next_execution_time) != e["t"] + back:
                    bad.append(("wrong_retry_parameters", "retry requeue does not carry tried+1 and now+policy(tried+1)"))
            else:
                if q.retries.already_tried != 0 or ct.us_of_dt(q.timestamp) != e["t"]:
                    bad.append(("wrong_reschedule_parameters", "reschedule does not reset the counter / restart the clock"))
    # final place
    place = {"ack": [], "nack": ["dead"], "requeue": ["delayed"], "reject": ["simple"]}[got]
    if r["deliveries"] == 1 and r["places"] != place:
        bad.append(("wrong_final_place", f"after {got} the message is in {r['places']}"))
    if case["fin"][0] in ("return", "raise", "timeout", "outfail") and r["actor_starts"] != 1:
        bad.append(("actor_invocations", f"actor body started {r['actor_starts']} times"))
    if case["fin"][0] in ("convfail", "depfail") and r["actor_starts"] != 0:
        bad.append(("actor_ran_despite_failure", "actor body ran although conversion/dependency resolution failed"))
    return bad


def gen_cases(ctx: Ctx, rng) -> list[dict]:
    cases = []
    def fins(conv):
        return [("return", 5), ("raise", 61), ("timeout",), ("convfail", 9005 if conv == "basic" else 9004), ("depfail", 62),
                ("outfail", 9003)]
    for conv in ("basic", "pydantic"):
        for fin in fins(conv):
            for mx, tried in RETRY_STATES:
                for by in (None, 10 * S):
                    for result in (None, ("r", 60 * S)):
                        cases.append({"params": {"max": mx, "tried": tried, "by": by, "result": result, "ts": -S, "timeout": 2 * S,
                                                 "ttl": None},
                                      "pol": ("default", 10, 86400, 5, 15) if mx != 1 else ("linear", 2 * S, 1),
                                      "calls": [], "fin": fin, "converter": conv, "rbb": True})
    pres = [[], [("set_result", 11, False)], [("set_exception", 77, False)], [("add_callback", (1, False), False)],
            [("add_callback", (1, False), False), ("set_result", 12, False), ("add_callback", (2, False), False)],
            [("add_callback", (1, True), False)],                              # failing callback (known finding)
            [("set_result", 11, False), ("set_exception", 78, False)]]
    terms = [("ack", None), ("nack", None), ("reject", None), ("reschedule", None), ("retry", None), ("force_retry", 3 * S)]
    for pre in pres:
        for t in terms:
            for mx, tried in RETRY_STATES:
                for by in (None, 10 * S):
                    result = ("r", None) if (mx + tried) % 2 == 0 else None
                    for fin in (("return", 5), ("raise", 61)):
                        if rng.random() < (0.5 if not ctx.thorough else 0.0):
                            continue
                        cases.append({"params": {"max": mx, "tried": tried, "by": by, "result": result, "ts": -S, "timeout": 2 * S},
                                      "pol": ("const", 5 * S), "calls": pre + [(t[0], t[1], False)], "fin": fin,
                                      "converter": "basic" if rng.random() < 0.8 else "pydantic", "rbb": True,
                                      "store_fails": result is not None and rng.random() < 0.1})
    return cases


def run(ctx: Ctx) -> Result:
    rng = ctx.rng()
    res = Result(rule=RULE)
    res.relations = ["pcase_obs (process of one delivery: API events, broker calls, callbacks, result stores)"]
    intern = ct.Interner()
    singles = gen_cases(ctx, rng)
    res.count("single_deliveries", len(singles))
    # mixes: up to 8 deliveries processed concurrently by one worker (no zero back-off, time limit below every back-off)
    mixes = []
    pool = [c for c in singles if not c.get("store_fails") and not pr.returns_at_once(c)]
    for _ in range(ctx.scale(120, 1500)):
        k = rng.randint(2, 8)
        mix = [dict(rng.choice(pool)) for _ in range(k)]
        rbb = True
        mixes.append(mix)
    res.count("concurrent_mixes", len(mixes))
    res.count("deliveries_in_mixes", sum(len(m) for m in mixes))
    out_s, out_m = [], []

    async def main(loop):
        loop.set_exception_handler(lambda l, c: None)
        for c in singles:
            out_s.append(await pr.run_process_case(c, loop, intern))
        for m in mixes:
            out_m.append(await pr.run_process_mix(m, loop, intern, tasks_limit=rng.choice([1, 2, len(m)])))

    run_virtual(main)
    pairs = list(zip(singles, out_s)) + [(c, r) for m, rs in zip(mixes, out_m) for c, r in zip(m, rs)]
    for c, r in pairs:
        res.add_case(r["term"], True)
        res.count("fin:" + c["fin"][0])
        if r["noaction"]:
            res.count("eager_response")
        for kind, what in oracle(c, r, intern):
            res.failures.append(Failure(kind, what, c, {"obs": r["obs"], "places": r["places"]}))
    res.samples = [{"coq": pairs[i][1]["term"], "impl_obs": pairs[i][1]["obs"]} for i in (0, len(pairs) // 2, len(pairs) - 1)]
    bad, mo = runmodel.run_cases("c02", "Sched Handle Ladder", "pcase_obs", [(r["term"], r["obs"]) for _, r in pairs])
    for i in bad:
        res.mismatches.append({"relation": "pcase_obs", "case": pairs[i][0], "coq": pairs[i][1]["term"],
                               "impl_obs": pairs[i][1]["obs"], "model_obs": mo.get(i)})
    res.model_cases = len(pairs)
    res.traces_validated = len(pairs) - len(bad)
    return res


def _fix(case):
    c = dict(case)
    c["pol"] = tuple(c["pol"])
    c["fin"] = tuple(c["fin"])
    c["calls"] = [(n, tuple(a) if isinstance(a, list) else a, b) for n, a, b in c["calls"]]
    if c["params"].get("result") is not None:
        c["params"] = dict(c["params"], result=tuple(c["params"]["result"]))
    return c


def replay(ctx: Ctx, rp: dict) -> dict:
    case = _fix(rp.get("case") or rp["first_diverging_case"]["case"])
    intern = ct.Interner()
    out = {}

    async def main(loop):
        loop.set_exception_handler(lambda l, c: None)
        r = await pr.run_process_case(case, loop, intern)
        out.update({"coq": r["term"], "impl_obs": r["obs"], "places": r["places"], "oracle": oracle(case, r, intern),
                    "broker_calls": [(e["op"], e["ok"]) for e in r["terminal_all"]]})

    run_virtual(main)
    out["fails"] = bool(out["oracle"])
    return out
