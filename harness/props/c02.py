"""C02 — every delivery ends in exactly one, correct disposition."""
from __future__ import annotations

from .. import coqterm as ct
from .. import runmodel
from ..common import Ctx, Failure, Result
from ..vloop import run_virtual
from .. import procrun as pr

RULE = ("one case = one delivery handled by a real Worker on the recording in-memory broker: cross product of actor endings "
        "(return, raise, timeout, input-conversion failure, output-conversion failure, dependency failure) and eager responses (6 actions x result/"
        "exception/callbacks, incl. failing ones) x retry states x recurring x result on/off x Basic/Pydantic converter, plus "
        "mixes of up to 8 such deliveries processed concurrently by one worker; distinct by printed Coq case; non-trivial = "
        "the delivery reached a disposition decision (always) ")
TRUSTED = ["in-memory broker subclassed at the public broker API to record calls and inject failures"]
ASSUMPTIONS = ["actor bodies end (return/raise) or are stopped by the time limit; callbacks may raise Exception, not BaseException"]
S = pr.S
RETRY_STATES = [(0, 0), (1, 0), (1, 1), (3, 1), (3, 3), (3, 4), (0, 2)]


def expected_decision(case, r):
    """The table of the property, computed from the case alone (None when an eager action ended the delivery)."""
    p = case["params"]
    success = case["fin"][0] == "return"
    if not success and p["tried"] < p["max"]:
        return "retry"
    if p.get("by") is not None:
        return "resched"
    return "ack" if success else "nack"


def oracle(case, r, intern) -> list[tuple[str, str]]:
    bad = []
    ok = r["terminal_ok"]
    injected_broker = any(c[2] for c in case["calls"]) or case.get("report_fails")
    cb_failed = any(e["kind"] in ("callback", "store") and not e["ok"] for e in r["events"])
    eager_ok = [e for e in ok if True]
    if r["run_error"]:
        bad.append(("worker_died", f"Worker.run raised {r['run_error']}"))
    if not injected_broker and len(ok) != 1:
        # which call came from the handle (before _NoAction / before the body ended)?
        if len(ok) == 2 and cb_failed:
            bad.append(("second_disposition_after_eager_callback_failure",
                        "a callback or the result store raised after an eager action: the worker applied a second terminal action"))
        else:
            bad.append(("terminal_count", f"{len(ok)} terminal broker calls for one delivery"))
        return bad
    if injected_broker:
        return bad
    e = ok[0]
    if r["noaction"]:
        # nothing more after an eager response: the single call is the actor's own
        api_idx = next(i for i, x in enumerate(r["events"]) if x["kind"] == "api" and x["res"] == "noaction")
        brk_idx = r["events"].index(e)
        if brk_idx > api_idx:
            bad.append(("report_after_eager", "a broker call was made after the eager response"))
        return bad
    want = expected_decision(case, r)
    p = r["params"]
    got = e["op"]
    if want in ("ack", "nack"):
        if got != want:
            bad.append(("wrong_disposition", f"expected {want}, worker did {got}"))
    else:
        if got != "requeue":
            bad.append(("wrong_disposition", f"expected requeue({want}), worker did {got}"))
        else:
            q = e["params"]
            if want == "retry":
                back = ct.us_of_td(pr.make_policy(case["pol"])(retry_number=p.retries.already_tried + 1))
                if q.retries.already_tried != p.retries.already_tried + 1 or \
                        q.delay.next_execution_time is None or ct.us_of_dt(q.delay.next_execution_time) != e["t"] + back:
                    bad.append(("wrong_retry_parameters", "retry requeue does not carry tried+1 and now+policy(tried+1)"))
            else:
                if q.retries.already_tried != 0 or ct.us_of_dt(q.timestamp) != e["t"]:
                    bad.append(("wrong_reschedule_parameters", "reschedule does not reset the counter / restart the clock"))
    # final place
    place = {"ack": [], "nack": ["dead"], "requeue": ["delayed"], "reject": ["simple"]}[got]
    if r["deliveries"] == 1 and r["places"] != place:
        bad.append(("wrong_final_place", f"after {got} the message is in {r['places']}"))
    if case["fin"][0] in ("return", "raise", "timeout", "outfail") and r["actor_starts"] != 1:
        bad.append(("actor_invocations", f"actor body started {r['actor_starts']} times"))
    if case["fin"][0] in ("convfail", "depfail") and r["actor_starts"] != 0:
        bad.append(("actor_ran_despite_failure", "actor body ran although conversion/dependency resolution failed"))
    return bad


def gen_cases(ctx: Ctx, rng) -> list[dict]:
    cases = []
    def fins(conv):
        return [("return", 5), ("raise", 61), ("timeout",), ("convfail", 9005 if conv == "basic" else 9004), ("depfail", 62),
                ("outfail", 9003)]
    for conv in ("basic", "pydantic"):
        for fin in fins(conv):
            for mx, tried in RETRY_STATES:
                for by in (None, 10 * S):
                    for result in (None, ("r", 60 * S)):
                        cases.append({"params": {"max": mx, "tried": tried, "by": by, "result": result, "ts": -S, "timeout": 2 * S,
                                                 "ttl": None},
                                      "pol": ("default", 10, 86400, 5, 15) if mx != 1 else ("linear", 2 * S, 1),
                                      "calls": [], "fin": fin, "converter": conv, "rbb": True})
    # a job that wants its result stored, on a worker whose connection has no results broker: the store step fails, the
    # disposition stands
    for c in [c for c in cases if c["params"]["result"] is not None and c["fin"][0] in ("return", "raise", "outfail")]:
        if rng.random() < (0.5 if not ctx.thorough else 1.0):
            cases.append(dict(c, rbb=False))
    pres = [[], [("set_result", 11, False)], [("set_exception", 77, False)], [("add_callback", (1, False), False)],
            [("add_callback", (1, False), False), ("set_result", 12, False), ("add_callback", (2, False), False)],
            [("add_callback", (1, True), False)],                              # failing callback (known finding)
            [("set_result", 11, False), ("set_exception", 78, False)]]
    terms = [("ack", None), ("nack", None), ("reject", None), ("reschedule", None), ("retry", None), ("force_retry", 3 * S)]
    for pre in pres:
        for t in terms:
            for mx, tried in RETRY_STATES:
                for by in (None, 10 * S):
                    result = ("r", None) if (mx + tried) % 2 == 0 else None
                    for fin in (("return", 5), ("raise", 61)):
                        if rng.random() < (0.5 if not ctx.thorough else 0.0):
                            continue
                        cases.append({"params": {"max": mx, "tried": tried, "by": by, "result": result, "ts": -S, "timeout": 2 * S},
                                      "pol": ("const", 5 * S), "calls": pre + [(t[0], t[1], False)], "fin": fin,
                                      "converter": "basic" if rng.random() < 0.8 else "pydantic", "rbb": True,
                                      "store_fails": result is not None and rng.random() < 0.1})
    return cases


def run(ctx: Ctx) -> Result:
    rng = ctx.rng()
    res = Result(rule=RULE)
    res.relations = ["pcase_obs (process of one delivery: API events, broker calls, callbacks, result stores)"]
    intern = ct.Interner()
    singles = gen_cases(ctx, rng)
    res.count("single_deliveries", len(singles))
    # mixes: up to 8 deliveries processed concurrently by one worker (no zero back-off, time limit below every back-off)
    mixes = []
    pool = [c for c in singles if not c.get("store_fails") and not pr.returns_at_once(c) and c.get("rbb", True)]
    for _ in range(ctx.scale(120, 1500)):
        k = rng.randint(2, 8)
        mix = [dict(rng.choice(pool)) for _ in range(k)]
        rbb = True
        mixes.append(mix)
    res.count("concurrent_mixes", len(mixes))
    res.count("deliveries_in_mixes", sum(len(m) for m in mixes))
    out_s, out_m = [], []

    async def main(loop):
        loop.set_exception_handler(lambda l, c: None)
        for c in singles:
            out_s.append(await pr.run_process_case(c, loop, intern))
        for m in mixes:
            out_m.append(await pr.run_process_mix(m, loop, intern, tasks_limit=rng.choice([1, 2, len(m)])))

    run_virtual(main)
    pairs = list(zip(singles, out_s)) + [(c, r) for m, rs in zip(mixes, out_m) for c, r in zip(m, rs)]
    for c, r in pairs:
        res.add_case(r["term"], True)
        res.count("fin:" + c["fin"][0])
        if r["noaction"]:
            res.count("eager_response")
        for kind, what in oracle(c, r, intern):
            res.failures.append(Failure(kind, what, c, {"obs": r["obs"], "places": r["places"]}))
    eager_vs_time_limit(ctx, res)
    redelivery_while_finishing(ctx, res)
    res.samples = [{"coq": pairs[i][1]["term"], "impl_obs": pairs[i][1]["obs"]} for i in (0, len(pairs) // 2, len(pairs) - 1)]
    bad, mo = runmodel.run_cases("c02", "Sched Handle Ladder", "pcase_obs", [(r["term"], r["obs"]) for _, r in pairs])
    for i in bad:
        res.mismatches.append({"relation": "pcase_obs", "case": pairs[i][0], "coq": pairs[i][1]["term"],
                               "impl_obs": pairs[i][1]["obs"], "model_obs": mo.get(i)})
    res.model_cases = len(pairs)
    res.traces_validated = len(pairs) - len(bad)
    return res


async def _eager_race(loop, op: str, pre_us: int, round_trip: float, recurring: bool) -> dict:
    """an actor that sleeps `pre_us` of its 1 s time limit and then answers eagerly over a broker whose calls take `round_trip`"""
    import asyncio
    from repid import BasicConverter, MessageDependency, Router
    from ..clock import CLOCK
    from ..pyparams import mk_params
    from ..world import MemMessage, World, key
    w = World(results=False, args=False)
    w.mb.round_trip = round_trip
    await w.declare("q")
    router = Router()

    async def act(m: MessageDependency) -> None:
        await asyncio.sleep(pre_us / 1_000_000)
        await getattr(m, op)()
    act.__annotations__ = {"m": MessageDependency, "return": None}     # (this module postpones the evaluation of annotations)
    router.actor(act, name="act", queue="q", converter=BasicConverter)
    p = mk_params(ts=CLOCK.now_us(), timeout_us=1 * S, max_amount=2, by=10 * S if recurring else None)
    w.mb.queues["q"].simple.put_nowait(MemMessage(key("m1", "act"), "", p))
    loop.max_iterations = loop.iteration + 400_000
    err = None
    try:
        await w.worker([router], messages_limit=1, tasks_limit=1, graceful_shutdown_time=5.0).run()
    except Exception as e:  # noqa: BLE001
        err = repr(e)
    await asyncio.sleep(0.2)
    terms = [(e["op"], e["ok"]) for e in w.log.events if e["kind"] == "broker" and e["op"] in ("ack", "nack", "reject", "requeue")]
    return {"terms": terms, "places": w.place_of("q", "m1"), "err": err}


def eager_vs_time_limit(ctx: Ctx, res: Result) -> None:
    """Oracle only: whatever instant the time limit strikes relative to an eager response, the delivery gets exactly one
    terminal action and the message is in at most one place afterwards."""
    cases = [(op, pre, rt, rec) for op in ("ack", "nack", "reject", "retry", "force_retry", "reschedule")
             for pre in (900_000, 960_000, 975_000, 990_000, 999_000, 1_000_000, 1_020_000)
             for rt in (0.0, 0.03) for rec in (False, True)]
    outs = []

    async def main(loop):
        loop.set_exception_handler(lambda l, c: None)
        for c in cases:
            outs.append(await _eager_race(loop, *c))
    run_virtual(main)
    seen = set()
    for (op, pre, rt, rec), r in zip(cases, outs):
        res.count("eager_vs_time_limit_runs")
        res.add_case(f"eager_race:{op}:{pre}:{rt}:{rec}:{r['terms']}", True)
        ok = [t for t in r["terms"] if t[1]]
        if (r["err"] or len(ok) != 1 or len(r["places"]) > 1) and "race" not in seen:
            seen.add("race")
            res.failures.append(Failure("eager_response_and_time_limit_dispose_twice",
                                        f"actor sleeps {pre} us of its 1 s time limit, then {op}() over a broker whose calls take {rt} s "
                                        f"(recurring {rec}): terminal calls {r['terms']}, message afterwards in {r['places']} {r['err'] or ''}",
                                        {"eager_race": {"op": op, "pre_us": pre, "round_trip": rt, "recurring": rec}}, None))


async def _redelivery(loop, op: str, cb_s: float, by_us: int, second: str) -> dict:
    """a recurring job whose first delivery answers eagerly (`op`) and then spends `cb_s` seconds in a callback; its successor is
    due after `by_us` and is delivered (tasks_limit 2) while the first delivery is still being finished; the second run
    ends as `second` says"""
    import asyncio
    from datetime import timedelta
    from repid import BasicConverter, MessageDependency, Router
    from ..clock import CLOCK
    from ..pyparams import mk_params
    from ..world import MemMessage, World, key
    w = World(results=False, args=False)
    await w.declare("q")
    router = Router()
    n = {"runs": 0}

    async def act(m: MessageDependency) -> None:
        n["runs"] += 1
        if n["runs"] == 1:
            async def cb():
                await asyncio.sleep(cb_s)
            m.add_callback(cb)
            if op == "retry":
                await m.retry(timedelta(microseconds=by_us))
            else:
                await m.reschedule()
        elif second == "raise":
            raise ValueError("second run fails")
    act.__annotations__ = {"m": MessageDependency, "return": None}
    router.actor(act, name="act", queue="q", converter=BasicConverter)
    p = mk_params(ts=CLOCK.now_us(), timeout_us=60 * S, by=by_us, max_amount=1)
    w.mb.queues["q"].simple.put_nowait(MemMessage(key("m1", "act"), "", p))
    loop.max_iterations = loop.iteration + 400_000
    err = None
    try:
        await w.worker([router], messages_limit=2, tasks_limit=2, graceful_shutdown_time=10.0).run()
    except Exception as e:  # noqa: BLE001
        err = repr(e)
    await asyncio.sleep(0.2)
    terms = [(e["op"], e["ok"]) for e in w.log.events if e["kind"] == "broker" and e["op"] in ("ack", "nack", "reject", "requeue")]
    return {"runs": n["runs"], "terms": terms, "places": w.place_of("q", "m1"), "err": err}


def redelivery_while_finishing(ctx: Ctx, res: Result) -> None:
    """Oracle only: two deliveries of one message id overlap (the first is still in its callbacks): each gets its own terminal action."""
    cases = [(op, cb, by, second) for op in ("reschedule", "retry") for cb in (0.5, 3.0) for by in (100_000, 1_000_000)
             for second in ("return", "raise")]
    outs = []

    async def main(loop):
        loop.set_exception_handler(lambda l, c: None)
        for c in cases:
            outs.append(await _redelivery(loop, *c))
    run_virtual(main)
    reported = False
    for c, r in zip(cases, outs):
        res.count("overlapping_deliveries_runs")
        res.add_case(f"overlap:{c}:{r['terms']}", r["runs"] == 2)
        ok = [t for t in r["terms"] if t[1]]
        if (r["err"] or (r["runs"] == 2 and len(ok) != 2) or len(r["places"]) > 1) and not reported:
            reported = True
            res.failures.append(Failure("overlapping_deliveries_share_a_disposition",
                                        f"first delivery answers with {c[0]}() and spends {c[1]} s in a callback, the successor (due after {c[2]} us) "
                                        f"is delivered meanwhile and ends by {c[3]}: {r['runs']} executions, terminal calls {r['terms']}, message "
                                        f"afterwards in {r['places']} {r['err'] or ''}",
                                        {"overlap": {"op": c[0], "cb_s": c[1], "by_us": c[2], "second": c[3]}}, None))


def _fix(case):
    c = dict(case)
    c["pol"] = tuple(c["pol"])
    c["fin"] = tuple(c["fin"])
    c["calls"] = [(n, tuple(a) if isinstance(a, list) else a, b) for n, a, b in c["calls"]]
    if c["params"].get("result") is not None:
        c["params"] = dict(c["params"], result=tuple(c["params"]["result"]))
    return c


def replay(ctx: Ctx, rp: dict) -> dict:
    raw = rp.get("case") or rp["first_diverging_case"]["case"]
    out = {}
    if "eager_race" in raw:
        e = raw["eager_race"]

        async def emain(loop):
            loop.set_exception_handler(lambda l, c: None)
            out.update(await _eager_race(loop, e["op"], e["pre_us"], e["round_trip"], e["recurring"]))
        run_virtual(emain)
        out["fails"] = bool(out["err"] or len([t for t in out["terms"] if t[1]]) != 1 or len(out["places"]) > 1)
        return out
    if "overlap" in raw:
        e = raw["overlap"]

        async def omain(loop):
            loop.set_exception_handler(lambda l, c: None)
            out.update(await _redelivery(loop, e["op"], e["cb_s"], e["by_us"], e["second"]))
        run_virtual(omain)
        out["fails"] = bool(out["err"] or (out["runs"] == 2 and len([t for t in out["terms"] if t[1]]) != 2) or len(out["places"]) > 1)
        return out
    case = _fix(raw)
    intern = ct.Interner()

    async def main(loop):
        loop.set_exception_handler(lambda l, c: None)
        r = await pr.run_process_case(case, loop, intern)
        out.update({"coq": r["term"], "impl_obs": r["obs"], "places": r["places"], "oracle": oracle(case, r, intern),
                    "broker_calls": [(e["op"], e["ok"]) for e in r["terminal_all"]]})

    run_virtual(main)
    out["fails"] = bool(out["oracle"])
    return out
