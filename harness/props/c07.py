"""C07 — what the producer enqueued is what the consumer receives."""
import asyncio
import json
import string
from datetime import datetime, timedelta, timezone

from .. import coqterm as ct
from .. import runmodel
from ..common import Ctx, Failure, Result
from ..clock import CLOCK
from ..vloop import run_virtual

S = 1_000_000
YEAR = 365 * 86400 * S
RULE = ("(a) Parameters / ArgsBucket / ResultBucket built from generated values (every optional field present or None; durations "
        "at every power of two of a microsecond up to 100 years, +-1 us, and random; naive and aware datetimes with microseconds) "
        "encoded and decoded by the real classes: the JSON document (field by field) and the decoded object are compared with the "
        "model, and decode(encode(x)) == x is checked directly; (b) the validators and the Redis / RabbitMQ key codecs on names "
        "from the validators' language, on rejected names (empty, separators, spaces, unicode, trailing newline) and on all "
        "priorities 0..12 and large ones, the bucket marker on ids and on near-miss payloads; (c) Job(...).enqueue() -> consume() "
        "on the in-memory broker for generated job configurations (ids, priorities, delays, ttl, retries, result settings, inline "
        "or bucket transport) and JSON arguments (nested containers, dataclasses, pydantic models, dates, durations): routing key, "
        "payload and parameters received = enqueued, and the payload resolved through the args bucket = the arguments. Distinct by "
        "the printed Coq case; non-trivial = a case with an optional field set / a name with a digit, dash or underscore / a job "
        "with at least two non-default settings")
TRUSTED = ["json.dumps/json.loads and datetime.isoformat/fromisoformat are inverse on the generated values (checked by the direct "
           "round-trip oracle, not modelled)", "binary64: timedelta.total_seconds() = RN(n/10^6) and timedelta(seconds=float) = "
           "CPython's delta_new/accum, read off CPython's source; JsonFloat.td_roundtrip is about those real-number functions",
           "the Redis and RabbitMQ brokers' codecs are checked as pure functions; their transport (server round trip) is not run",
           "axioms of Coq's Reals + classical logic for C07_td_roundtrip only (printed in this evidence)"]
ASSUMPTIONS = ["argument payloads do not start with the reserved bucket marker", "durations are below 2^32 s (~136 years)"]

FIELD = {"execution_timeout": 1, "result": 2, "retries": 3, "delay": 4, "timestamp": 5, "ttl": 6, "max_amount": 7, "already_tried": 8,
         "id_": 9, "delay_until": 10, "defer_by": 11, "cron": 12, "next_execution_time": 13, "data": 14, "started_when": 15,
         "finished_when": 16, "success": 17, "exception": 18}
TIME_FIELDS = {"timestamp", "delay_until", "next_execution_time"}
DUR_FIELDS = {"execution_timeout", "ttl", "defer_by"}
_EPOCH = datetime(1970, 1, 1)


def flat(v, key, intern) -> list[int]:
    if v is None:
        return [0]
    if isinstance(v, bool):
        return [1, int(v)]
    if isinstance(v, dict):
        out = [6, len(v)]
        for k, x in v.items():
            out += [FIELD.get(k, 900 + intern(k))] + flat(x, k, intern)
        return out
    if key in DUR_FIELDS and isinstance(v, (int, float)):
        return [4, ct.us_of_td(timedelta(seconds=float(v)))]
    if key in TIME_FIELDS and isinstance(v, str):
        return [5, ct.us_of_dt(datetime.fromisoformat(v))]
    if isinstance(v, int):
        return [2, v]
    if isinstance(v, str):
        return [3, intern(v)]
    return [-9]


def gen_dur(rng) -> int:
    r = rng.random()
    if r < 0.5:
        k = rng.randint(0, 51)
        n = (1 << k) + rng.choice([-1, 0, 1])
    elif r < 0.7:
        n = rng.choice([S, 600 * S, 86400 * S, YEAR, 100 * YEAR, 100 * YEAR - 1, 99 * YEAR + 123_456_789, 1, 999_999, 1_000_001])
    else:
        n = rng.randint(0, 100 * YEAR)
    return max(0, min(n, 100 * YEAR))


def gen_time(rng) -> int:
    return rng.choice([1_700_000_000 * S, 1_700_000_000 * S + 999_999, 4_000_000_000 * S + 1, 946_684_800 * S,
                       rng.randint(10**15, 4 * 10**15)])


def opt(rng, f, p=0.5):
    return f(rng) if rng.random() < p else None


def o(x):
    return "None" if x is None else f"(Some {ct.Z(x)})"


# ------------------------------------------------------------------ (a) JSON
def json_cases(ctx: Ctx, res: Result, rng) -> None:
    from repid.data._buckets import ArgsBucket, ResultBucket
    from repid.data._parameters import DelayProperties, Parameters, ResultProperties, RetriesProperties
    intern = ct.Interner(start=1000)
    cases = []
    for _ in range(ctx.scale(1200, 20000)):
        kind = rng.choice(["p", "p", "p", "a", "r"])
        tz = timezone(timedelta(hours=rng.choice([0, 2, -5]))) if rng.random() < 0.2 else None

        def dt(us):
            if us is None:
                return None
            d = _EPOCH + timedelta(microseconds=us)
            return d if tz is None else d.replace(tzinfo=timezone.utc).astimezone(tz)

        def td(us):
            return None if us is None else timedelta(microseconds=us)

        if kind == "p":
            timeout, ttl = gen_dur(rng), opt(rng, gen_dur)
            res_ = None if rng.random() < 0.4 else (f"rid{rng.randint(1, 50)}", opt(rng, gen_dur))
            mx, tr = rng.randint(0, 9), rng.randint(0, 9)
            until, by, nxt = opt(rng, gen_time, 0.4), opt(rng, gen_dur, 0.4), opt(rng, gen_time, 0.4)
            cron = rng.choice([None, None, "5 4 * * *", "*/2 * * * *"])
            ts = gen_time(rng)
            obj = Parameters(execution_timeout=td(timeout), result=None if res_ is None else ResultProperties(id_=res_[0], ttl=td(res_[1])),
                             retries=RetriesProperties(max_amount=mx, already_tried=tr),
                             delay=DelayProperties(delay_until=dt(until), defer_by=td(by), cron=cron, next_execution_time=dt(nxt)),
                             timestamp=dt(ts), ttl=td(ttl))
            rterm = "None" if res_ is None else f"(Some (mkJResult {intern(res_[0])} {o(res_[1])}))"
            term = (f"(JParams (mkJParams {timeout} {rterm} (mkJRetries {mx} {tr}) (mkJDelay {o(until)} {o(by)} "
                    f"{o(None if cron is None else intern(cron))} {o(nxt)}) {ts} {o(ttl)}))")
            cls = Parameters
            nontrivial = sum(x is not None for x in (res_, until, by, nxt, cron, ttl)) >= 1
        elif kind == "a":
            data, ts, ttl = f"data{rng.randint(1, 99)}", gen_time(rng), opt(rng, gen_dur)
            obj = ArgsBucket(data=data, timestamp=dt(ts), ttl=td(ttl))
            term = f"(JArgs (mkJArgs {intern(data)} {ts} {o(ttl)}))"
            cls = ArgsBucket
            nontrivial = ttl is not None
        else:
            data, ts, ttl = f"data{rng.randint(1, 99)}", gen_time(rng), opt(rng, gen_dur)
            st, fi, ok = rng.randint(0, 2 * 10**18), rng.randint(0, 2 * 10**18), rng.random() < 0.5
            exc = None if ok else rng.choice(["ValueError", "E7"])
            obj = ResultBucket(data=data, started_when=st, finished_when=fi, success=ok, exception=exc, timestamp=dt(ts), ttl=td(ttl))
            term = f"(JResB (mkJResB {intern(data)} {st} {fi} {ct.B(ok)} {o(None if exc is None else intern(exc))} {ts} {o(ttl)}))"
            cls = ResultBucket
            nontrivial = ttl is not None or exc is not None
        res.count("json:" + kind)
        try:
            enc = obj.encode()
            back = cls.decode(enc)
            obs = flat(json.loads(enc), None, intern) + [-2, 1] + flat(json.loads(back.encode()), None, intern)
            if back != obj:
                res.failures.append(Failure("roundtrip_not_identity", f"{cls.__name__}.decode(encode(x)) != x",
                                            {"object": repr(obj), "encoded": enc, "decoded": repr(back)}, None))
        except Exception as e:  # noqa: BLE001
            obs = [-99]
            res.failures.append(Failure("codec_raises", f"{cls.__name__} encode/decode raised {e!r}", {"object": repr(obj)}, None))
        res.add_case(term, nontrivial)
        cases.append((term, obs))
    bad, mo = runmodel.run_cases("c07j", "Json", "json_obs", cases, shard=400)
    for i in bad:
        res.mismatches.append({"relation": "json_obs", "coq": cases[i][0], "impl_obs": cases[i][1][:200], "model_obs": (mo.get(i) or [])[:200]})
    res.model_cases += len(cases)
    res.traces_validated += len(cases) - len(bad)
    res.samples.append({"coq": cases[0][0], "impl_obs": cases[0][1][:60]})


# ------------------------------------------------------------------ (b) names and key codecs
def T(s: str) -> str:
    return ct.zlist(ord(c) for c in s)


def enc_text(s: str) -> list[int]:
    return [len(s)] + [ord(c) for c in s]


def gen_name(rng, valid=True) -> str:
    first = string.ascii_letters + "_"
    rest = string.ascii_letters + string.digits + "_-"
    if valid:
        return rng.choice(first) + "".join(rng.choice(rest) for _ in range(rng.randint(0, 8)))
    return rng.choice(["", "9abc", "-x", "a b", "a:b", ":", "a:", "ab\n", "é", "a.b", "a/b", " a", "a" + chr(0x661), "x" * 3 + "\t"])


def gen_id(rng, valid=True) -> str:
    rest = string.ascii_letters + string.digits + "_-"
    if valid:
        return "".join(rng.choice(rest) for _ in range(rng.randint(1, 12)))
    return rng.choice(["", "a:b", "a b", "ü", "a\n", "{x}", "a,b"])


def names_cases(ctx: Ctx, res: Result, rng) -> None:
    from repid._utils import VALID_ID, VALID_NAME
    from repid._utils.args_bucket_in_message_id import _ArgsBucketInMessageId as MK
    from repid.connections.rabbitmq.utils import qnc as rabbit_qnc
    from repid.connections.redis import utils as ru
    from repid.data._key import RoutingKey
    cases = []

    def add(term, obs, nontrivial=True):
        cases.append((term, obs))
        res.add_case(term, nontrivial)

    def guarded(f, *a, **k):
        try:
            return f(*a, **k)
        except Exception:  # noqa: BLE001
            return None

    KD = {"QNormal": (False, False), "QDelayed": (True, False), "QDead": (False, True)}
    for _ in range(ctx.scale(900, 12000)):
        valid = rng.random() < 0.7
        nm, idv = gen_name(rng, valid), gen_id(rng, valid or rng.random() < 0.5)
        add(f"(NValidName {T(nm)})", [int(VALID_NAME.fullmatch(nm) is not None)], any(c in nm for c in "0123456789_-"))
        add(f"(NValidId {T(idv)})", [int(VALID_ID.fullmatch(idv) is not None)])
        # RoutingKey accepts exactly what the validators accept
        ok = guarded(RoutingKey, topic=nm, queue="q", id_="x") is not None
        if ok != (VALID_NAME.fullmatch(nm) is not None):
            res.failures.append(Failure("routing_key_validation", f"RoutingKey(topic={nm!r}) accepted={ok}", {"name": nm}, None))
        s = rng.choice([nm, idv, f"{nm}:{idv}", "a::b", ":a", "a:b:c:d:e"])
        parts = s.split(":")
        add(f"(NSplit {T(s)})", [len(parts)] + [x for p in parts for x in enc_text(p)])
    for _ in range(ctx.scale(900, 12000)):
        topic, queue, idv = gen_name(rng), gen_name(rng), gen_id(rng)
        prio = rng.choice([0, 5, 9, 1, 2, 10, 12, 99, 100, 12345, rng.randint(0, 10**6)])
        key = RoutingKey(topic=topic, queue=queue, priority=prio, id_=idv)
        kt = f"(mkKey {T(idv)} {T(topic)} {T(queue)} {prio}%nat)"
        full, short = ru.mnc(key), ru.mnc(key, short=True)
        add(f"(NMnc {kt})", enc_text(full))
        add(f"(NMncShort {kt})", enc_text(short))
        kd = rng.choice(list(KD))
        fq = ru.qnc(queue, prio, delayed=KD[kd][0], dead=KD[kd][1])
        add(f"(NQnc {T(queue)} {prio}%nat {kd})", enc_text(fq))
        # decode(encode) = id, checked directly as well
        back = guarded(ru.parse_message_name, full)
        if back != (idv, topic, queue, prio):
            res.failures.append(Failure("redis_key_roundtrip", f"parse_message_name(mnc(key)) = {back}", {"key": repr(key)}, None))
        if guarded(ru.parse_short_message_name, short) != (topic, idv):
            res.failures.append(Failure("redis_key_roundtrip", "parse_short_message_name(mnc(key, short)) differs", {"key": repr(key)}, None))
        if guarded(ru.full_message_name_from_short, short, fq) != full:
            res.failures.append(Failure("redis_key_roundtrip", "full_message_name_from_short(short, qnc(...)) != mnc(key)", {"key": repr(key)}, None))
        # parsing: well-formed names and names with a wrong number of parts
        s = rng.choice([full, full, short, fq, full + ":x", "m:q:5:t", f"m:{queue}:0{prio}:{topic}:{idv}", f"m:{queue}:xx:{topic}:{idv}"])
        r = guarded(ru.parse_message_name, s)
        add(f"(NParse {T(s)})", [0] if r is None else [1] + enc_text(r[0]) + enc_text(r[1]) + enc_text(r[2]) + [r[3]])
        r = guarded(ru.parse_short_message_name, s)
        add(f"(NParseShort {T(s)})", [0] if r is None else [1] + enc_text(r[0]) + enc_text(r[1]))
        r = guarded(ru.full_message_name_from_short, short, rng.choice([fq, fq, full, queue]))
        fq2 = fq if r == full or r is None else None
        # (term built from the same second argument)
        arg2 = fq
        r = guarded(ru.full_message_name_from_short, short, arg2)
        add(f"(NFull {T(short)} {T(arg2)})", [-1] if r is None else enc_text(r))
        add(f"(NMarkerOf {T(fq)})", enc_text(ru.get_queue_marker(fq)))
        other = rng.choice([topic, topic[:-1] or "a", topic + "x", gen_name(rng)])
        add(f"(NTopic {T(other)} {T(short)})", [int(short.startswith(other + ":"))])
        rq = rabbit_qnc(queue, delayed=KD[kd][0], dead=KD[kd][1])
        add(f"(NRabbit {T(queue)} {kd})", enc_text(rq))
        # the marker
        mk = MK.construct(idv)
        add(f"(NMarker {T(idv)})", enc_text(mk))
        if not MK.check(mk) or MK.deconstruct(mk) != idv:
            res.failures.append(Failure("marker_roundtrip", f"marker of {idv!r}: check={MK.check(mk)}", {"id": idv}, None))
        s = rng.choice([mk, " " + mk, "  " + mk, "    " + mk, mk[1:], '{"a":1}', '{"__repid_payload_id_x":1}', '{"x":"__repid_payload_id"}', "",
                        '["__repid_payload_id"]', '{ "__repid_payload_id":"q"}'])
        add(f"(NCheck {T(s)})", [int(MK.check(s))])
        r = guarded(MK.deconstruct, mk)
        add(f"(NDecon {T(mk)})", [-1] if not isinstance(r, str) else enc_text(r))
    bad, mo = runmodel.run_cases("c07n", "Names", "names_obs", cases, shard=500)
    for i in bad:
        res.mismatches.append({"relation": "names_obs", "coq": cases[i][0][:600], "impl_obs": cases[i][1][:100], "model_obs": (mo.get(i) or [])[:100]})
    res.model_cases += len(cases)
    res.traces_validated += len(cases) - len(bad)
    res.samples.append({"coq": cases[5][0][:300], "impl_obs": cases[5][1][:60]})


# ------------------------------------------------------------------ (c) end to end on the in-memory broker
async def e2e(rng, n: int, res: Result) -> None:
    import dataclasses
    from datetime import date
    from repid import Connection, InMemoryBucketBroker, InMemoryMessageBroker, Job, Queue
    from repid._processor import _Processor
    from repid.data.priorities import PrioritiesT

    @dataclasses.dataclass
    class DC:
        a: int
        b: str

    try:
        from pydantic import BaseModel

        class PM(BaseModel):
            x: int
            y: list[int]
    except Exception:  # noqa: BLE001
        PM = None

    def gen_value(depth=0):
        r = rng.random()
        if depth > 2 or r < 0.4:
            return rng.choice([0, -1, 2**53, 1.5, "s", "", "é\"\\", True, None, "__repid_payload_idx"])
        if r < 0.6:
            return [gen_value(depth + 1) for _ in range(rng.randint(0, 3))]
        if r < 0.8:
            return {f"k{i}": gen_value(depth + 1) for i in range(rng.randint(0, 3))}
        if r < 0.85:
            return DC(rng.randint(0, 9), "x")
        if r < 0.9 and PM is not None:
            return PM(x=1, y=[1, 2])
        if r < 0.95:
            return rng.choice([datetime(2024, 2, 29, 12, 0, 1, 5), date(2020, 1, 1)])
        return timedelta(seconds=rng.randint(0, 10**6), microseconds=rng.randint(0, 999_999))

    for _ in range(n):
        conn = Connection(InMemoryMessageBroker(), InMemoryBucketBroker(), InMemoryBucketBroker(use_result_bucket=True))
        q = Queue(f"q{rng.randint(1, 3)}", _connection=conn)
        await q.declare()
        args = None if rng.random() < 0.15 else {f"a{i}": gen_value() for i in range(rng.randint(1, 4))}
        bucket = rng.random() < 0.4
        kw = {}
        if rng.random() < 0.5:
            kw["id_"] = f"job-{rng.randint(1, 10**6)}_x"
        if rng.random() < 0.4:
            kw["retries"] = rng.randint(0, 5)
        if rng.random() < 0.4:
            kw["timeout"] = timedelta(microseconds=gen_dur(rng) or 1)
        if rng.random() < 0.3:
            kw["ttl"] = timedelta(microseconds=max(gen_dur(rng), S))
        if rng.random() < 0.3:
            kw["result_ttl"] = timedelta(microseconds=max(gen_dur(rng), S))
        if rng.random() < 0.3:
            kw["store_result"] = rng.random() < 0.5
        delayed = rng.random() < 0.3
        if delayed:
            kw["deferred_until"] = CLOCK_DT() + timedelta(seconds=rng.choice([-5, 30]))
        if rng.random() < 0.2:
            kw["deferred_by"] = timedelta(seconds=rng.choice([1, 3600]))
            delayed = True
        if rng.random() < 0.3:
            kw["priority"] = rng.choice(list(PrioritiesT))
        try:
            job = Job("act", queue=q, args=args, use_args_bucketer=bucket, _connection=conn, **kw)
        except Exception as e:  # noqa: BLE001
            res.count("e2e:job_rejected_at_construction")
            continue
        res.count("e2e:jobs")
        res.count("e2e:bucket_transport" if bucket and args is not None else "e2e:inline")
        key, sent_args, params = await job.enqueue()
        from repid.message import MessageCategory
        cat = MessageCategory.NORMAL
        dq = conn.message_broker.queues[q.name]
        if dq.delayed:
            cat = MessageCategory.DELAYED
        cons = conn.message_broker.get_consumer(q.name, None, None, cat)
        await cons.start()
        try:
            key2, payload2, params2 = await asyncio.wait_for(cons.consume(), 0.05)
        except asyncio.TimeoutError:
            res.failures.append(Failure("enqueued_message_not_receivable", "consume() returned nothing after enqueue", {"job": repr(kw)}, None))
            continue
        res.add_case(repr((kw, bucket, args is not None)), len(kw) >= 2)
        if key2 != key:
            res.failures.append(Failure("routing_key_changed", f"{key} -> {key2}", {"job": repr(kw)}, None))
        if params2 != params or params2.encode() != params.encode():
            res.failures.append(Failure("parameters_changed", f"{params} -> {params2}", {"job": repr(kw)}, None))
        if type(params).decode(params.encode()) != params:
            res.failures.append(Failure("roundtrip_not_identity", f"Parameters.decode(encode(p)) != p for {params}", {"job": repr(kw)}, None))
        got = await _Processor(conn).get_payload(payload2)
        if got != sent_args:
            res.failures.append(Failure("payload_changed", f"consumer resolves the payload to {got!r}, producer sent {sent_args!r}", {"job": repr(kw)}, None))
        if args is not None and not bucket and payload2 != sent_args:
            res.failures.append(Failure("payload_changed", "inline payload differs", {"job": repr(kw)}, None))
        if key.priority != job.priority.value or key.topic != "act" or key.queue != q.name:
            res.failures.append(Failure("routing_key_wrong", f"{key} for priority {job.priority}", {"job": repr(kw)}, None))

    # one long-lived processor (what a running worker has) resolving the payloads of a sequence of jobs, some of which REUSE an
    # explicit argument-bucket id with other arguments (the bucket is legitimately overwritten by the later job)
    for _ in range(max(2, n // 12)):
        conn = Connection(InMemoryMessageBroker(), InMemoryBucketBroker(), InMemoryBucketBroker(use_result_bucket=True))
        q = Queue("q1", _connection=conn)
        await q.declare()
        proc = _Processor(conn)
        cons = conn.message_broker.get_consumer(q.name, None, None)
        await cons.start()
        for j in range(rng.randint(2, 6)):
            args = {f"a{i}": gen_value() for i in range(rng.randint(1, 3))}
            args["round"] = j
            bucket = rng.random() < 0.8
            kw = {}
            if bucket and rng.random() < 0.7:
                kw["args_id"] = rng.choice(["shared-1", "shared-2"])
            try:
                job = Job("act", queue=q, args=args, use_args_bucketer=bucket, _connection=conn, **kw)
            except Exception:  # noqa: BLE001
                res.count("e2e:job_rejected_at_construction")
                continue
            res.count("e2e:jobs_through_one_processor")
            key, sent_args, params = await job.enqueue()
            try:
                key2, payload2, params2 = await asyncio.wait_for(cons.consume(), 0.05)
            except asyncio.TimeoutError:
                res.failures.append(Failure("enqueued_message_not_receivable", "consume() returned nothing after enqueue", {"job": repr(kw)}, None))
                break
            got = await proc.get_payload(payload2)
            res.add_case(repr(("one_processor", j, kw, bucket)), "args_id" in kw)
            if got != sent_args:
                res.failures.append(Failure("payload_changed", f"job {j} of a sequence through one processor (args_id {kw.get('args_id')}): the "
                                            f"consumer resolves the payload to {got!r}, the producer sent {sent_args!r}", {"job": repr(kw), "round": j}, None))
            await conn.message_broker.ack(key2)


def CLOCK_DT():
    return _EPOCH + timedelta(microseconds=CLOCK.now_us())


def run(ctx: Ctx) -> Result:
    rng = ctx.rng()
    res = Result(rule=RULE)
    res.relations = ["json_obs: the encoded document field by field, and the document of the decoded object",
                     "names_obs: validators, split, Redis/RabbitMQ key codecs, topic prefix test, bucket marker"]
    CLOCK.set(CLOCK.now_us())
    json_cases(ctx, res, rng)
    names_cases(ctx, res, rng)

    async def main(loop):
        loop.set_exception_handler(lambda l, c: None)
        await e2e(rng, ctx.scale(400, 6000), res)

    run_virtual(main)
    seen, uniq = set(), []
    for f in res.failures:
        if f.kind not in seen:
            seen.add(f.kind)
            uniq.append(f)
    res.failures = uniq
    return res


def replay(ctx: Ctx, rp: dict) -> dict:
    res = run(ctx)
    return {"oracle": [(f.kind, f.what) for f in res.failures][:10], "mismatches": len(res.mismatches),
            "fails": bool(res.failures or res.mismatches)}
