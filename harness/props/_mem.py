"""Shared driver and oracles for the properties decided on the in-memory broker (C01 C05 C11 C12 C14 C15)."""
from .. import coqterm as ct
from .. import memrun, runmodel
from ..common import Ctx, Failure, Result
from ..vloop import run_virtual

S = memrun.S


def due_of(p, now: int):
    """Next execution time T of a message put at `now` (the property's T), from its parameters."""
    d = p.delay
    if d.next_execution_time is not None:
        return ct.us_of_dt(d.next_execution_time)
    if d.delay_until is not None and ct.us_of_dt(d.delay_until) > now:
        return ct.us_of_dt(d.delay_until)
    if d.defer_by is not None:
        by, ts = ct.us_of_td(d.defer_by), ct.us_of_dt(p.timestamp)
        return ts + by * ((now - ts) // by + 1)
    return None


def expiry_of(p):
    return None if p.ttl is None else ct.us_of_dt(p.timestamp) + ct.us_of_td(p.ttl)


def deliveries(e) -> list:
    """(consumer, id, poll time, category) delivered by a trace entry."""
    out = []
    if e["op"] == "consume" and e["delivered"]:
        t = e["polls"][-1][0] if e["polls"] else e["t"]
        out.append((e["c"], e["delivered"], t, e["cat"]))
    elif e["op"] == "consume_many":
        last = {}
        for c, t, u in e["polls"]:
            last[c] = t
        for i, (c, q) in e["new_held"].items():
            out.append((c, i, last.get(c, e["t"]), e["cspec"][c][1] if "cspec" in e else None))
    return out


def oracle_all(hist: dict, r: dict, which: set) -> list:
    """Evaluates the selected property predicates on the implementation's trace. Returns [(kind, what, where)]."""
    bad = []
    cspec = hist["consumers"]
    live: dict = {}
    holder: dict = {}
    origin: dict = {}
    due: dict = {}
    expiry: dict = {}
    prev_places: dict = {}
    prev_msgs: dict = {}
    for n, e in enumerate(r["trace"]):
        after = e["after"]
        places, msgs = after["places"], after["msgs"]
        op = e["op"]
        where = {"step": n, "op": {k: v for k, v in e.items() if k not in ("after", "params", "got", "before")}}
        t_end = e.get("t_return", e["t"])
        if op == "put" and e["applied"]:
            live[e["id"]] = 1
            due[e["id"]] = due_of(e["params"], e["t"])
            expiry[e["id"]] = expiry_of(e["params"])
        elif op == "requeue" and e["applied"]:
            i = e["id"]
            live[i] = 1
            due[i] = due_of(e["params"], e["t"])
            expiry[i] = expiry_of(e["params"])
            holder.pop(i, None)
            if "C01" in which:
                pl = places.get(i, [])
                if len(pl) == 1 and (msgs[i][0] != e["payload"] or msgs[i][1] != e["params"]):
                    bad.append(("requeue_not_replaced", "after requeue the message does not carry the new payload/parameters", where))
                if len(pl) == 1 and pl[0][0] != ("delayed" if due[i] is not None else "simple"):
                    bad.append(("requeue_wrong_place", f"requeued message is in {pl[0][0]}", where))
        elif op in ("ack", "nack", "reject") and e["applied"] and e.get("held_before") is not None:
            i = e["id"]
            holder.pop(i, None)
            if op == "ack":
                live[i] = 0
            if "C01" in which:
                pl = places.get(i, [])
                if op == "nack" and [p[0] for p in pl] != ["dead"]:
                    bad.append(("nack_not_dead_lettered", f"after nack the message is in {pl}", where))
                if op == "reject" and origin.get(i, 1) is not None:
                    o = origin.get(i, ("simple", None))
                    ok = len(pl) == 1 and pl[0][0] == o[0] and (o[0] != "delayed" or pl[0][2] == o[1])
                    if not ok:
                        bad.append(("reject_not_to_origin", f"taken from {o}, after reject in {pl}", where))
        elif op == "together":
            hb = e["held_before"]
            for sb in e["subs"]:
                if sb["k"] == "finish":
                    for i in e["mine"][sb["c"]]:
                        holder.pop(i, None)
                    continue
                i = sb["id"]
                if i not in hb:
                    continue
                holder.pop(i, None)
                if sb["k"] == "ack":
                    # on a message its holder's finish() returned in the same step the ack finds nothing
                    if not any(x["k"] == "finish" and hb[i][0] == x["c"] for x in e["subs"][:e["subs"].index(sb)]):
                        live[i] = 0
                    elif not places.get(i):
                        live[i] = 0
                elif sb["k"] == "requeue":
                    live[i] = None     # replaced or duplicated legitimately? decided below
                    due[i] = due_of(sb["params"], e["t"])
                    expiry[i] = expiry_of(sb["params"])
            for i, v in list(live.items()):
                if v is None:
                    # requeue next to the holder's finish: well-behavedness is broken by construction (the message was
                    # already returned when the requeue ran), the id may legitimately be present twice
                    live.pop(i)
        elif op == "finish_concurrent":
            # finish() of consumer f while another consumer was inside consume(): what f held goes back, nothing else moves
            for i in e["returned"]:
                holder.pop(i, None)
            if ("C14" in which or "C01" in which) and e["took_from_others"]:
                bad.append(("finish_takes_foreign_message", f"finish of consumer {e['c']}, running while consumer "
                            f"{e['concurrent_with_consume_of']} was taking a message, removed {e['took_from_others']} which it did not hold",
                            where))
        elif op == "finish":
            for i in e["returned"]:
                holder.pop(i, None)
            if "C14" in which or "C01" in which:
                # messages held by other consumers stay held by them
                for i, pl in prev_places.items():
                    if pl and pl[0][0] == "held" and pl[0][2] != e["c"]:
                        if places.get(i) != pl:
                            bad.append(("finish_takes_foreign_message", f"finish of consumer {e['c']} moved message {i} held by consumer {pl[0][2]}", where))
                for i in e["returned"]:
                    o = origin.get(i, ("simple", None))
                    pl = places.get(i, [])
                    if "C01" in which and o is not None and not (len(pl) == 1 and pl[0][0] == o[0]):
                        bad.append(("finish_not_to_origin", f"taken from {o}, after finish in {pl}", where))
        e2 = dict(e, cspec=cspec)
        for c, i, t, cat in deliveries(e2):
            cat = cspec[c][1]
            if "C14" in which and i in holder:
                bad.append(("delivered_while_held", f"message {i} delivered to consumer {c} while held by consumer {holder[i]}", where))
            holder[i] = c
            pp = (e.get("before") or prev_places).get(i, [("simple", None, None)])
            origin[i] = ("simple", None) if cat == 0 else (("dead", None) if cat == 2 else ("delayed", pp[0][2]))
            if cat == 1 and pp[0][0] != "delayed":
                origin[i] = None      # returned by a concurrent finish and taken again within one op: due key not observed
            if cat == 0:
                if "C05" in which and due.get(i) is not None and t // 1000 < due[i] // 1000:
                    bad.append(("delivered_early", f"message {i} due at {due[i]} handed to a normal consumer at {t}", where))
                if "C12" in which and expiry.get(i) is not None and t > expiry[i]:
                    bad.append(("expired_delivered", f"message {i} expired at {expiry[i]} delivered at {t}", where))
                if "C11" in which:
                    topics = cspec[c][2]
                    tp = (msgs.get(i) or prev_msgs.get(i))[2]
                    if topics is not None and tp not in topics:
                        bad.append(("foreign_topic_delivered", f"consumer with topics {topics} received topic {tp}", where))
                    if places.get(i, [("", None)])[0][1] != cspec[c][0]:
                        bad.append(("foreign_queue_delivered", "message delivered through another queue's consumer", where))
        # state predicates after every step
        if "C01" in which or "C14" in which:
            for i, want in live.items():
                k = len(places.get(i, []))
                if k < want:
                    bad.append(("message_lost", f"message {i} is in no place", where))
                elif k > want:
                    bad.append(("message_duplicated", f"message {i} is in {places.get(i)}", where))
        if "C05" in which:
            for i, pl in places.items():
                if pl and pl[0][0] == "simple" and due.get(i) is not None and t_end // 1000 < due[i] // 1000:
                    bad.append(("waiting_before_due", f"message {i} due at {due[i]} is in the normal queue at {t_end}", where))
        if "C12" in which or "C11" in which:
            for t_d, i in e.get("dead_appends", []):
                if expiry.get(i) is None or t_d <= expiry[i]:
                    bad.append(("live_message_dead_lettered", f"message {i} (expiry {expiry.get(i)}) dead-lettered by a consumer at {t_d}", where))
        if "C11" in which and op in ("consume", "consume_many"):
            for i, was in prev_places.items():
                if was and not places.get(i):
                    bad.append(("message_dropped_by_consume", f"message {i} (was in {was[0][0]}) is nowhere after a consume of "
                                "a consumer that did not receive it", where))
            for i, pl in places.items():
                if i in prev_msgs and i in msgs and (msgs[i][0], msgs[i][1]) != (prev_msgs[i][0], prev_msgs[i][1]):
                    bad.append(("consume_changed_message", f"payload/parameters of message {i} changed during a consume", where))
        prev_places, prev_msgs = places, msgs
    return bad


def default_nontrivial(h: dict, r: dict) -> bool:
    return any(e["op"] in ("consume", "consume_many") and (e.get("delivered") or e.get("new_held")) for e in r["trace"]) and \
        any(e["op"] in ("ack", "nack", "reject", "requeue", "finish") for e in r["trace"])


def run_histories(ctx: Ctx, res: Result, tag: str, hists: list, which: set, rng, generated: bool = True,
                  nontrivial=default_nontrivial) -> list:
    outs = []

    async def main(loop):
        loop.set_exception_handler(lambda l, c: None)
        for h in hists:
            outs.append(await (memrun.run_generated(h, loop, rng) if generated else memrun.run_history(h, loop)))

    run_virtual(main)
    cases = []
    for h, r in zip(hists, outs):
        res.add_case(r["term"], bool(nontrivial(h, r)))
        for e in r["trace"]:
            res.count("op:" + e["op"])
            if e.get("cancelled"):
                res.count("cut_calls")
        cases.append((r["term"], r["obs"]))
        seen = set()
        for kind, what, where in oracle_all(h, r, which):
            if kind in seen:
                continue
            seen.add(kind)
            res.failures.append(Failure(kind, what, {"history": strip(h), "where": where}, None))
    if outs and not res.samples:
        res.samples = [{"coq": outs[0]["term"][:1500], "impl_obs": outs[0]["obs"][:120]}]
    bad, mo = runmodel.run_cases(tag, "Sched MemBroker", "mem_obs", cases, shard=120)
    for i in bad:
        res.mismatches.append({"relation": "mem_obs", "case": strip(hists[i]), "coq": cases[i][0][:4000],
                               "impl_obs": cases[i][1][:400], "model_obs": (mo.get(i) or [])[:400]})
    res.model_cases += len(cases)
    res.traces_validated += len(cases) - len(bad)
    res.count("model_ops", sum(r["n_model_ops"] for r in outs))
    res.count("idle_polls_merged", sum(r["mw"].n_compressed for r in outs))
    return outs


def strip(h: dict) -> dict:
    return {"queues": h["queues"], "consumers": {str(k): v for k, v in h["consumers"].items()}, "ops": h["ops"],
            "known": {str(k): v for k, v in h.get("known", {}).items()}}


def unstrip(h: dict) -> dict:
    return {"queues": h["queues"], "consumers": {int(k): tuple(v) for k, v in h["consumers"].items()}, "ops": h["ops"],
            "known": {int(k): tuple(v) for k, v in h.get("known", {}).items()}}


def replay_history(ctx: Ctx, rp: dict, which: set, extra=None) -> dict:
    case = rp.get("case") or rp["first_diverging_case"]["case"]
    if "history" not in case and "ops" not in case:
        # a case of one of the cut-point enumerations (Redis / RabbitMQ / in-memory probes): they are deterministic and re-run as a
        # whole by the check itself
        return {"fails": None, "note": f"case kind {sorted(case)}: re-run `./check {ctx.pid} --tier quick`; the enumeration that produced it is deterministic"}
    h = unstrip(case["history"] if "history" in case else case)
    rng = ctx.rng("replay")
    out = {}

    async def main(loop):
        loop.set_exception_handler(lambda l, c: None)
        r = await memrun.run_generated(h, loop, rng)
        o = oracle_all(h, r, which)
        if extra is not None:
            o = o + extra(h, r)
        out.update({"oracle": [(k, w) for k, w, _ in o][:10], "n_ops": len(r["trace"])})

    run_virtual(main)
    out["fails"] = bool(out["oracle"])
    return out



def due_overtaken(hist: dict, r: dict) -> list:
    """A delayed message that has become due joins the waiting list at the start of the next consume() call on its queue (every
    call re-reads the delayed store before it looks at the waiting list; a call that is already polling does so once a
    second).  From then on it is a waiting message like any other: a message that arrives (is enqueued, comes due, is
    returned) AFTER that call started may not be handed out to the queue's normal consumer while the promoted one - of a
    matching topic, alive, not held - is still waiting.  Premise as in C15: one normal consumer per queue."""
    bad = []
    cspec = hist["consumers"]
    normal_per_queue: dict = {}
    for c, (q, cat, _) in cspec.items():
        if cat == 0:
            normal_per_queue[q] = normal_per_queue.get(q, 0) + 1
    due, arr_t, expiry, queue_of, promo, put_t = {}, {}, {}, {}, {}, {}
    prev_places: dict = {}
    for n, e in enumerate(r["trace"]):
        places, msgs = e["after"]["places"], e["after"]["msgs"]
        if e["op"] in ("put", "requeue") and e.get("applied"):
            i = e["id"]
            due[i] = due_of(e["params"], e["t"])
            expiry[i] = expiry_of(e["params"])
            arr_t[i] = due[i] if due[i] is not None else e["t"]
            queue_of[i] = e.get("queue")
            put_t[i] = e["t"]
            promo.pop(i, None)
        elif e["op"] in ("reject", "finish"):
            for i in ([e["id"]] if e["op"] == "reject" else e.get("returned", [])):
                arr_t[i] = max(arr_t.get(i, 0), e["t"])
                due.pop(i, None)                    # returned to the waiting list (or parked again): no longer "due and waiting since T"
                promo.pop(i, None)
        elif e["op"] == "consume":
            q = cspec[e["c"]][0]
            # this call re-read the delayed store of its queue when it started
            for i, T in due.items():
                # (trace entries are appended when a call ENDS; e["t"] is when it started: the message must have existed then)
                if T is not None and i not in promo and T < e["t"] and put_t.get(i, 0) < e["t"]:
                    pl = prev_places.get(i)
                    if pl and len(pl) == 1 and pl[0][0] in ("delayed", "simple") and pl[0][1] == q:
                        promo[i] = e["t"]
            if cspec[e["c"]][1] == 0 and e.get("delivered") and normal_per_queue.get(q) == 1:
                j = e["delivered"]
                topics = cspec[e["c"]][2]
                for i, P in promo.items():
                    if i == j or arr_t.get(j, 0) <= P:
                        continue
                    pl = prev_places.get(i)
                    if not pl or len(pl) != 1 or pl[0][0] not in ("delayed", "simple") or pl[0][1] != q:
                        continue
                    if msgs.get(i) is None or (topics is not None and msgs[i][2] not in topics):
                        continue
                    t_poll = e["polls"][-1][0] if e.get("polls") else e["t"]
                    if expiry.get(i) is not None and expiry[i] <= t_poll:
                        continue
                    bad.append(("due_message_overtaken", f"message {i} was due at {due.get(i)} and joined the waiting list with the consume() call that "
                                f"started at {P}; the call that started at {e['t']} handed out message {j}, which arrived at {arr_t.get(j)} - after "
                                f"that - while {i} was still waiting ({pl[0][0]})",
                                {"step": n, "op": {k: v for k, v in e.items() if k not in ("after", "params", "got", "polls")}}))
                    break
                due.pop(j, None)
                promo.pop(j, None)
        prev_places = places
    return bad



def consume_cancel_cuts(ctx: Ctx, res: Result) -> None:
    """In-memory consumer: consume() cancelled k loop iterations after it started (every k of the window in which it picks a
    message and hands it out), then finish() of that consumer: afterwards the processing set is empty and every message is in
    exactly one place (C01 / C03: a cancellation exactly at the last await of consume() must not orphan the message)."""
    import asyncio
    from repid import InMemoryMessageBroker
    from ..clock import CLOCK
    from ..pyparams import mk_params
    from ..vloop import run_virtual
    from ..world import key
    problems = []

    async def main(loop):
        loop.set_exception_handler(lambda l, c: None)
        for scenario in ("plain", "due_delayed_first", "expired_first"):
            for k in range(0, ctx.scale(14, 30)):
                mb = InMemoryMessageBroker()
                await mb.queue_declare("q1")
                now = CLOCK.now_us()
                specs = {1: {}, 2: {}}
                if scenario == "due_delayed_first":
                    specs = {1: {"nxt": now - 1000}, 2: {}}
                elif scenario == "expired_first":
                    specs = {1: {"ts": now - 5_000_000, "ttl": 1000}, 2: {}}
                for i, sp in specs.items():
                    await mb.enqueue(key(f"m{i}", "t1", "q1", 5), f"p{i}", mk_params(ts=sp.get("ts", now), ttl=sp.get("ttl"), nxt=sp.get("nxt")))
                cons = mb.get_consumer("q1", None, 5)
                await cons.start()
                t = asyncio.ensure_future(cons.consume())
                for _ in range(k):
                    await asyncio.sleep(0)
                t.cancel()
                await asyncio.gather(t, return_exceptions=True)
                await cons.finish()
                for _ in range(5):
                    await asyncio.sleep(0)
                q = mb.queues["q1"]
                where: dict = {}
                for m in list(q.simple._queue):
                    where.setdefault(m.key.id_, []).append("waiting")
                for ms in q.delayed.values():
                    for m in ms:
                        where.setdefault(m.key.id_, []).append("delayed")
                for m in q.dead:
                    where.setdefault(m.key.id_, []).append("dead")
                for m in q.processing:
                    where.setdefault(m.key.id_, []).append("processing")
                res.count("mem_consume_cancel_cut_runs")
                res.add_case(f"mem_consume_cancel:{scenario}:{k}:{sorted(where.items())}", k > 0)
                bad = {i: where.get(f"m{i}", []) for i in specs if len(where.get(f"m{i}", [])) != 1 or where[f"m{i}"] == ["processing"]}
                if bad:
                    problems.append((scenario, k, bad))
    run_virtual(main)
    if problems:
        scenario, k, bad = problems[0]
        res.failures.append(Failure("mem_consume_cancelled_then_finish_leaves_message", f"scenario {scenario}: consume() cancelled {k} loop iterations after "
                                    f"it started, then finish(): {bad} (every message must be in exactly one place, none left in the processing set); "
                                    f"{len(problems)} of the cut points fail", {"mem_consume_cancel_cut": {"scenario": scenario, "k": k}}, None))
