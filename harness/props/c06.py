"""C06 — recurring jobs: exactly one successor per run, on a steady cadence."""
from __future__ import annotations

from .. import coqterm as ct
from .. import runmodel
from ..clock import CLOCK
from ..common import Ctx, Failure, Result
from ..pyparams import enc_params, mk_params, params_term
from ..vloop import run_virtual
from .. import procrun as pr

RULE = ("(a) sequences of 1..12 consecutive reschedules driven through Parameters._prepare_reschedule under the pinned clock with "
        "constant / growing / shrinking / random lateness; (b) recurring jobs (deferred_by, optional deferred_until, retries "
        "inside iterations) followed end to end through real Workers in virtual time; distinct by printed Coq case; "
        "non-trivial = at least two consecutive iterations")
TRUSTED = ["in-memory broker only in this check"]
ASSUMPTIONS = ["cron recurrence is not modelled (croniter absent)"]
S = pr.S
KNOWN = "cadence_grid_anchored_at_timestamp"


def check_successor(p_in, p_out, now, sched, by, until_abs):
    """The property clauses for one completed iteration. Returns list of (kind, what)."""
    bad = []
    nxt = None if p_out.delay.next_execution_time is None else ct.us_of_dt(p_out.delay.next_execution_time)
    if p_out.retries.already_tried != 0:
        bad.append(("successor_counter_not_reset", "successor does not start with already_tried = 0"))
    if ct.us_of_dt(p_out.timestamp) != now:
        bad.append(("successor_clock_not_restarted", "successor timestamp is not the reschedule instant"))
    if nxt is None:
        bad.append(("no_successor_time", "successor has no next execution time"))
        return bad
    if until_abs is not None and until_abs > now:
        if nxt != until_abs:
            bad.append(("deferred_until_ignored", "successor is not scheduled at deferred_until while that is ahead"))
        return bad
    if not (now < nxt <= now + by):
        bad.append(("successor_outside_window", f"next={nxt} not in (now, now+period], now={now}"))
    if sched is not None and sched <= now:
        if nxt <= sched:
            bad.append(("slot_runs_twice", "successor is not after the slot that just ran"))
        elif nxt < sched + by:
            # known finding: the successor is exactly the first point after `now` of the grid anchored at the message
            # timestamp (what C19 specifies), and the slot that just ran is not on that grid (the grid was re-based by a
            # late reschedule, or the slot was deferred_until)
            ts_prev = ct.us_of_dt(p_in.timestamp)
            on_formula = nxt == ts_prev + by * ((now - ts_prev) // by + 1)
            if on_formula:   # then the slot is necessarily off that grid (C06_cadence_aligned)
                bad.append((KNOWN, f"successor {nxt} is less than one period after the slot {sched} that just ran: it is the "
                                   f"first point after completion {now} of the grid anchored at timestamp {ts_prev}"))
            else:
                bad.append(("cadence_other", f"successor {nxt} < slot {sched} + period and not the timestamp-grid successor"))
    return bad


def run(ctx: Ctx) -> Result:
    rng = ctx.rng()
    res = Result(rule=RULE)
    res.relations = ["recur_obs (successive _prepare_reschedule results)", "chain_obs (end-to-end iterations incl. retry chains)"]
    intern = ct.Interner()
    items_r, owners_r = [], []
    # (a) direct sequences under the pinned clock; the corpus case of the known finding first
    seqs = [{"by": 10 * S, "ts": 0, "late": [3 * S, 1 * S, 1 * S], "until": None, "label": "corpus:13s,21s"}]
    profiles = ["constant", "growing", "shrinking", "random", "zero"]
    for _ in range(ctx.scale(1500, 15000)):
        by = rng.choice([1 * S, 10 * S, 60 * S, 3600 * S, rng.randint(S, 10**9)])
        n = rng.randint(1, 12)
        prof = rng.choice(profiles)
        base = rng.randint(0, 3 * by)
        if prof == "constant":
            late = [base] * n
        elif prof == "growing":
            late = [base + i * rng.randint(0, by // 3 + 1) for i in range(n)]
        elif prof == "shrinking":
            late = [max(0, base - i * rng.randint(0, by // 3 + 1)) for i in range(n)]
        elif prof == "zero":
            late = [0] * n
        else:
            late = [rng.randint(0, 3 * by) for _ in range(n)]
        seqs.append({"by": by, "ts": rng.randint(0, 10**6), "late": late, "label": prof,
                     "until": rng.choice([None, None, None, rng.randint(-by, 5 * by)])})
    T = 1_700_000_000 * S
    for sq in seqs:
        by = sq["by"]
        until_abs = None if sq["until"] is None else T + sq["until"]
        p = mk_params(by=by, until=until_abs, ts=T + sq["ts"], max_amount=rng.randint(0, 2), tried=rng.randint(0, 2),
                      ttl=rng.choice([None, by]))
        CLOCK.set(T + sq["ts"])
        first = p.compute_next_execution_time
        sched = ct.us_of_dt(first)
        p0 = p
        finishes, obs = [], []
        for i, late in enumerate(sq["late"]):
            now = sched + late
            CLOCK.set(now)
            q = p._prepare_reschedule()
            finishes.append(now)
            obs += enc_params(q, intern)
            for kind, what in check_successor(p, q, now, sched, by, until_abs):
                res.failures.append(Failure(kind, what, {"mode": "direct", **sq, "iteration": i}, None))
            p = q
            sched = ct.us_of_dt(q.delay.next_execution_time)
        term = f"({params_term(p0, intern)}, {ct.zlist(finishes)})"
        items_r.append((term, obs))
        owners_r.append(sq)
        res.add_case(term, len(sq["late"]) >= 2)
        res.count("direct:" + sq["label"].split(":")[0])
    # (b) end to end
    chains = []
    for _ in range(ctx.scale(120, 1500)):
        by = rng.choice([5 * S, 10 * S, 30 * S])
        N = rng.choice([0, 0, 1, 2])
        n_it = rng.randint(2, 6)
        pat = []
        for _ in range(n_it):
            fails = rng.randint(0, N + 1) if rng.random() < 0.4 else 0
            pat += ["raise"] * fails + (["ok"] if fails <= N else [])
        L = len(pat)
        chains.append({"N": N, "pattern": pat, "by": by, "mode": "jump", "pol": rng.choice([("const", 2 * S), ("default", 1, 7, 2, 2)]),
                       "until": rng.choice([None, None, 17 * S, -3 * S]),
                       "durations": [rng.choice([0, 0, S, by // 2, by + S]) for _ in range(L)],
                       "latencies": [rng.choice([1, 1, S, by // 3, 2 * by]) for _ in range(L)],
                       "timeout": 10 * by})
    outs = []

    async def main(loop):
        loop.set_exception_handler(lambda l, c: None)
        for c in chains:
            outs.append(await pr.run_chain(c, loop, intern))

    run_virtual(main)
    items_c, owners_c = [], []
    for c, r in zip(chains, outs):
        for t in pr.chain_terms(c, r, intern):
            items_c.append(t)
            owners_c.append(c)
        res.add_case(repr([a["op_at"] for a in r["attempts"]]) + repr(c), True)
        res.count("end_to_end")
        by = c["by"]
        until_abs = None if c.get("until") is None else r["start"] + c["until"]
        if r["run_errors"]:
            res.failures.append(Failure("worker_died", str(r["run_errors"]), c))
        if any(n != 1 for n in r["copies"]):
            res.failures.append(Failure("successor_count", f"copies of the recurring message between runs: {r['copies']}", c))
        if c.get("until") is not None and c["until"] > 0 and r["dues"] and r["dues"][0] != until_abs:
            res.failures.append(Failure("first_run_ignores_deferred_until", "first run is not filed under deferred_until", c))
        for k, a in enumerate(r["attempts"]):
            p_in, q = a["params_at_delivery"], a["params_out"]
            if a["op"] != "requeue" or q.retries.already_tried == p_in.retries.already_tried + 1:
                if a["op"] in ("ack", "nack"):
                    res.failures.append(Failure("recurring_job_ended", f"iteration ended with {a['op']}: no successor", c))
                continue
            sched = r["dues"][k] if k < len(r["dues"]) else None
            # the slot that just ran is the slot of the first attempt of this scheduling
            j = k
            while j > 0 and r["attempts"][j - 1]["params_out"] is not None and \
                    r["attempts"][j - 1]["params_out"].retries.already_tried > 0:
                j -= 1
            sched = r["dues"][j] if j < len(r["dues"]) else sched
            p_first = r["attempts"][j]["params_at_delivery"]
            for kind, what in check_successor(p_first, q, a["op_at"], sched, by, until_abs):
                res.failures.append(Failure(kind, what, {"mode": "end_to_end", **c, "iteration": k}, None))
    res.samples = [{"coq": items_r[0][0], "impl_obs": items_r[0][1]}, {"coq": items_c[0][0], "impl_obs": items_c[0][1]}]
    bad, mo = runmodel.run_cases("c06r", "Sched Handle Ladder", "recur_obs", items_r, shard=250)
    for i in bad:
        res.mismatches.append({"relation": "recur_obs", "case": owners_r[i], "coq": items_r[i][0], "impl_obs": items_r[i][1], "model_obs": mo.get(i)})
    bad2, mo = runmodel.run_cases("c06c", "Sched Handle Ladder", "chain_obs", items_c)
    for i in bad2:
        res.mismatches.append({"relation": "chain_obs", "case": owners_c[i], "coq": items_c[i][0], "impl_obs": items_c[i][1], "model_obs": mo.get(i)})
    res.model_cases = len(items_r) + len(items_c)
    res.traces_validated = res.model_cases - len(bad) - len(bad2)
    return res


def replay(ctx: Ctx, rp: dict) -> dict:
    res = run(ctx)
    kinds = sorted({f.kind for f in res.failures})
    return {"fails": rp.get("kind") in kinds, "kinds_seen": kinds, "mismatches": len(res.mismatches)}
