"""C04 — retries are bounded, counted and backed off as configured."""
from __future__ import annotations

import itertools

from .. import coqterm as ct
from .. import runmodel
from ..common import Ctx, Failure, Result
from ..vloop import run_virtual
from .. import procrun as pr

RULE = ("one case = one job (retries N in 0..6) followed through all its attempts by real Workers in virtual time: all 2^(N+1) "
        "failure patterns for N<=3 (exception or timeout), sampled for larger N; explicitly forced retries at every position of the chain (before, at and beyond the budget) followed by ordinary failures or a success; default policy with generated parameters and "
        "user policies (constant, linear, zero); recurring or not; 'jump' (one Worker.run per attempt at the due time) and "
        "'continuous' (one Worker polling through the back-offs) modes; distinct by the printed Coq chain case; non-trivial = "
        "at least one retry happened")
TRUSTED = ["in-memory broker only in this check (delivery-time guarantees of the other brokers: C05)"]
ASSUMPTIONS = ["retry policies are total and return non-negative durations"]
S = pr.S


def oracle(case, r) -> list[tuple[str, str]]:
    bad = []
    pol = pr.make_policy(case["pol"])
    N = case["N"]
    att = r["attempts"]
    if r["run_errors"]:
        bad.append(("worker_died", str(r["run_errors"])))
    # split into schedulings; within one scheduling the counter goes 0,1,2,...
    k_in = 0
    forced = 0
    for i, a in enumerate(att):
        p = a["params_at_delivery"]
        if p.retries.already_tried != k_in:
            bad.append(("counter_wrong", f"attempt {i}: message carries already_tried={p.retries.already_tried}, expected {k_in}"))
            return bad
        if p.retries.already_tried > max(N, 0) + forced:
            bad.append(("counter_exceeds_budget", f"already_tried={p.retries.already_tried} > retries={N} with {forced} forced retries"))
        if a.get("kind") == "force":
            q = a["params_out"]
            if a["op"] != "requeue" or q.retries.already_tried != k_in + 1:
                bad.append(("forced_retry_not_counted", f"force_retry at attempt {i}: op={a['op']}"))
                return bad
            k_in += 1
            forced += 1
            continue
        if i > 0 and att[i - 1]["params_out"] is not None:
            due = att[i - 1]["params_out"].delay.next_execution_time
            if due is not None and a["delivered_at"] < ct.us_of_dt(due):
                bad.append(("delivered_before_backoff", f"attempt {i} delivered at {a['delivered_at']} before its due time {ct.us_of_dt(due)}"))
        if a["op"] is None:
            bad.append(("no_disposition", f"attempt {i} got no terminal action"))
            return bad
        if a["success"]:
            want = "requeue" if case.get("by") else "ack"
            if a["op"] != want:
                bad.append(("success_not_final", f"success at attempt {i} answered with {a['op']}"))
            k_in = 0
        elif k_in < N:
            q = a["params_out"]
            back = ct.us_of_td(pol(retry_number=k_in + 1))
            if a["op"] != "requeue" or q.retries.already_tried != k_in + 1:
                bad.append(("retry_not_counted", f"failure {i} with {k_in} < {N}: op={a['op']}, counter out={getattr(q, 'retries', None)}"))
                return bad
            if ct.us_of_dt(q.delay.next_execution_time) != a["op_at"] + back:
                bad.append(("backoff_wrong", f"retry {k_in + 1}: next_execution_time is not failure instant + policy({k_in + 1})"))
            k_in += 1
        else:
            want = "requeue" if case.get("by") else "nack"
            if a["op"] != want:
                bad.append(("exhausted_not_dead", f"failure with no retries left answered with {a['op']}"))
            elif want == "requeue" and a["params_out"].retries.already_tried != 0:
                bad.append(("reschedule_keeps_counter", "rescheduled successor does not start at already_tried=0"))
            k_in = 0
            forced = 0
    # executions per scheduling for all-fail chains
    if all(x not in ("ok", "force") for x in case["pattern"]) and not case.get("by") and len(case["pattern"]) >= N + 1:
        if len(att) != N + 1:
            bad.append(("wrong_number_of_executions", f"retries={N}, all failing: {len(att)} executions"))
        elif r["places"] != ["dead"]:
            bad.append(("not_dead_lettered", f"after exhausting retries the message is in {r['places']}"))
    return bad


def gen(ctx: Ctx, rng) -> list[dict]:
    cases = []
    pols = [("default", 10, 86400, 5, 15), ("default", 1, 7, 2, 2), ("const", 0), ("const", 3 * S), ("linear", 2 * S, 1),
            ("default", 3, 3, 1, 1)]
    for N in range(0, 4):
        for pat in itertools.product(["ok", "raise", "timeout"], repeat=N + 1):
            if pat.count("timeout") > 1 and rng.random() < 0.7:
                continue
            cases.append({"N": N, "pattern": list(pat), "pol": rng.choice(pols), "by": rng.choice([None, None, 30 * S]),
                          "mode": "jump"})
    for _ in range(ctx.scale(250, 3000)):
        N = rng.randint(0, 6)
        L = N + 1 + rng.choice([0, 0, 2])
        pat = [rng.choice(["raise", "raise", "raise", "timeout", "ok"]) for _ in range(L)]
        if rng.random() < 0.4:
            pat = ["raise"] * L
        by = rng.choice([None, None, 20 * S])
        cases.append({"N": N, "pattern": pat, "by": by, "mode": "jump",
                      "pol": ("default", rng.randint(1, 20), rng.randint(20, 100000), rng.randint(1, 9), rng.randint(1, 20))
                      if rng.random() < 0.6 else rng.choice(pols)})
    # explicitly forced retries (the only way beyond the budget), followed by ordinary failures or a success
    for N in range(0, 4):
        for n_before in range(0, N + 1):
            for n_force in (1, 2):
                for tail in (["raise"], ["timeout"], ["ok"], ["raise", "raise"]):
                    pat = ["raise"] * n_before + ["force"] * n_force + tail
                    cases.append({"N": N, "pattern": pat, "by": rng.choice([None, None, 30 * S]), "mode": "jump",
                                  "pol": rng.choice(pols), "force_backoff": rng.choice([0, 1000, 2 * S])})
    for _ in range(ctx.scale(60, 600)):
        N = rng.randint(1, 3)
        pat = [rng.choice(["raise", "raise", "ok"]) for _ in range(N + 1)]
        if "ok" in pat:
            pat = pat[:pat.index("ok") + 1]
        cases.append({"N": N, "pattern": pat, "by": None, "mode": "continuous",
                      "pol": rng.choice([("const", 0), ("const", 1500000), ("default", 1, 3, 1, 1), ("linear", 300000, 7)])})
    return cases


def run(ctx: Ctx) -> Result:
    rng = ctx.rng()
    res = Result(rule=RULE)
    res.relations = ["chain_obs (decisions and requeued parameters of one scheduling)"]
    intern = ct.Interner()
    cases = gen(ctx, rng)
    outs = []

    async def main(loop):
        loop.set_exception_handler(lambda l, c: None)
        for c in cases:
            outs.append(await pr.run_chain(c, loop, intern))

    run_virtual(main)
    items, owners = [], []
    for c, r in zip(cases, outs):
        ts = pr.chain_terms(c, r, intern)
        res.count("mode:" + c["mode"])
        res.count(f"N={c['N']}")
        retried = any(a["op"] == "requeue" and a["params_out"].retries.already_tried > 0 for a in r["attempts"])
        for t in ts:
            items.append(t)
            owners.append(c)
        res.add_case(repr(ts), retried)
        for kind, what in oracle(c, r):
            res.failures.append(Failure(kind, what, c, [{"op": a["op"], "at": a["op_at"], "delivered": a["delivered_at"]} for a in r["attempts"]]))
    res.samples = [{"coq": items[i][0], "impl_obs": items[i][1]} for i in (0, len(items) // 2, len(items) - 1)]
    bad, mo = runmodel.run_cases("c04", "Sched Handle Ladder", "chain_obs", items)
    for i in bad:
        res.mismatches.append({"relation": "chain_obs", "case": owners[i], "coq": items[i][0], "impl_obs": items[i][1],
                               "model_obs": mo.get(i)})
    res.model_cases = len(items)
    res.traces_validated = len(items) - len(bad)
    return res


def replay(ctx: Ctx, rp: dict) -> dict:
    case = rp.get("case") or rp["first_diverging_case"]["case"]
    case = dict(case, pol=tuple(case["pol"]))
    intern = ct.Interner()
    out = {}

    async def main(loop):
        loop.set_exception_handler(lambda l, c: None)
        r = await pr.run_chain(case, loop, intern)
        out.update({"attempts": [{"op": a["op"], "at": a["op_at"], "delivered": a["delivered_at"],
                                  "tried_in": a["params_at_delivery"].retries.already_tried} for a in r["attempts"]],
                    "places": r["places"], "oracle": oracle(case, r)})

    run_virtual(main)
    out["fails"] = bool(out["oracle"])
    return out
