"""C13 — the stored result is the outcome of the latest execution."""
from __future__ import annotations

from .. import coqterm as ct
from .. import runmodel
from ..common import Ctx, Failure, Result
from ..vloop import run_virtual
from .. import procrun as pr

RULE = ("deliveries handled by a real Worker with recording in-memory brokers: return values / custom exceptions, eager "
        "responses with set_result/set_exception sequences (the last one wins), result storing on/off, result ids and ttl, "
        "every store_bucket call failing or not (each failing case is also run without the failure and the dispositions are "
        "compared), concurrent mixes; retry/reschedule chains where each attempt overwrites; distinct by printed Coq case; "
        "non-trivial = result storing enabled")
TRUSTED = ["in-memory bucket broker subclassed at the public API to record and fail store_bucket/get_bucket"]
ASSUMPTIONS = ["time.time_ns() and datetime.now() read the same non-decreasing clock"]
S = pr.S


def expected_result(case):
    """(success, data-code, exc-code) the bucket must hold after this delivery, or None if nothing is to be stored.
    Computed from the case alone, following the property statement."""
    if case["params"].get("result") is None:
        return None
    p = case["params"]
    spent = False
    latest = None
    for name, arg, bfail in case["calls"]:
        if name == "set_result" and case.get("rbb", True):
            latest = (True, arg, None)
        elif name == "set_exception" and case.get("rbb", True):
            latest = (False, arg, arg)
        elif name in pr.TERMINAL and not bfail and not spent:
            refused = (name == "retry" and p["tried"] >= p["max"])
            if not refused:
                return ("eager", latest)
    fin = case["fin"]
    if fin[0] == "return":
        return ("plain", (True, fin[1], None))
    return ("plain", (False, pr.fin_code(fin), pr.fin_code(fin)))


def oracle(case, r, twin=None):
    bad = []
    exp = expected_result(case)
    stores = r["stores"]
    if r["run_error"]:
        bad.append(("worker_died", f"Worker.run raised {r['run_error']}"))
    if exp is None:
        if stores:
            bad.append(("store_although_disabled", "store_bucket was called although the job stores no result"))
        return bad
    mode, want = exp
    if want is None:
        if stores:
            bad.append(("store_without_result", "eager response without set_result/set_exception stored a result"))
        return bad
    if not case.get("rbb", True):
        return bad
    if not stores:
        bad.append(("no_store", "no store_bucket call for a job that stores results"))
        return bad
    b = stores[-1]["bucket"]
    got = pr._enc_bucket(b, None)
    want_enc = [1 if want[0] else 0, want[1]] + ct.enc_optZ(want[2])
    if got[:len(want_enc)] != want_enc:
        bad.append(("stored_outcome_wrong", f"bucket holds {got}, execution outcome is {want_enc}"))
    ttl = case["params"]["result"][1]
    if (None if b.ttl is None else ct.us_of_td(b.ttl)) != ttl:
        bad.append(("stored_ttl_wrong", "bucket ttl is not the configured result ttl"))
    if not (b.started_when <= b.finished_when):
        bad.append(("started_after_finished", "started_when > finished_when"))
    if len(stores) != 1:
        bad.append(("store_count", f"{len(stores)} store calls for one delivery"))
    if case.get("store_fails"):
        if twin is not None:
            a = [(e["op"], e["ok"]) for e in r["terminal_all"]]
            c = [(e["op"], e["ok"]) for e in twin["terminal_all"]]
            if a != c or r["places"] != twin["places"]:
                bad.append(("store_failure_changes_disposition", f"with a failing store: {a} {r['places']}; without: {c} {twin['places']}"))
    else:
        # Job.result / the bucket broker return what was stored
        if r["bucket"] is None or r["bucket"] != b:
            bad.append(("result_not_readable", "the bucket under the result id is not the stored outcome"))
    return bad


def run(ctx: Ctx) -> Result:
    rng = ctx.rng()
    res = Result(rule=RULE)
    res.relations = ["pcase_obs (incl. EStore events)", "chain_obs + latest store"]
    intern = ct.Interner()
    cases = []
    sets = [[], [("set_result", 11, False)], [("set_exception", 77, False)],
            [("set_result", 11, False), ("set_exception", 78, False)], [("set_exception", 79, False), ("set_result", 13, False)],
            [("add_callback", (1, False), False), ("set_result", 14, False), ("add_callback", (2, True), False)]]
    terms = [None, ("ack", None), ("nack", None), ("reject", None), ("reschedule", None), ("retry", None), ("force_retry", 3 * S)]
    for pre in sets:
        for t in terms:
            for result in (None, ("r", None), ("r", 90 * S)):
                for fin in (("return", 5), ("raise", 61), ("timeout",), ("outfail", 9003)):
                    for mx, tried in ((0, 0), (2, 0), (1, 1)):
                        if rng.random() < (0.6 if not ctx.thorough else 0.0):
                            continue
                        calls = pre + ([(t[0], t[1], False)] if t else [])
                        if fin[0] == "timeout" and t is not None:
                            continue
                        base = {"params": {"max": mx, "tried": tried, "by": rng.choice([None, 10 * S]), "result": result,
                                           "ts": -S, "timeout": 2 * S},
                                "pol": ("const", 5 * S), "calls": calls, "fin": fin, "rbb": True,
                                "converter": rng.choice(["basic", "basic", "pydantic"])}
                        cases.append(dict(base, store_fails=False))
                        if result is not None and rng.random() < 0.5:
                            cases.append(dict(base, store_fails=True))
                        if result is not None and rng.random() < 0.25:
                            # ... over a broker whose terminal calls take 30 ms on the wire
                            cases.append(dict(base, store_fails=True, round_trip=0.03))
    # no results broker configured
    for _ in range(ctx.scale(40, 400)):
        c = dict(rng.choice(cases), rbb=False, store_fails=False)
        if c["params"]["result"] is not None and not any(x[0] in pr.TERMINAL for x in c["calls"]):
            continue      # the store step raises ValueError(no broker): covered by the model, irrelevant here
        cases.append(c)
    outs, twins = [], {}
    mixes, mouts = [], []
    pool = [c for c in cases if not pr.returns_at_once(c) and c.get("rbb", True)]
    for _ in range(ctx.scale(60, 600)):
        mixes.append([dict(rng.choice(pool)) for _ in range(rng.randint(2, 6))])

    async def main(loop):
        loop.set_exception_handler(lambda l, c: None)
        for i, c in enumerate(cases):
            outs.append(await pr.run_process_case(c, loop, intern))
            if c.get("store_fails"):
                twins[i] = await pr.run_process_case(dict(c, store_fails=False), loop, intern)
        for m in mixes:
            mouts.append(await pr.run_process_mix(m, loop, intern))

    run_virtual(main)
    pairs = []
    for i, (c, r) in enumerate(zip(cases, outs)):
        pairs.append((c, r))
        res.add_case(r["term"], c["params"].get("result") is not None)
        res.count("store_fails" if c.get("store_fails") else "store_ok")
        for kind, what in oracle(c, r, twins.get(i)):
            res.failures.append(Failure(kind, what, c, r["obs"]))
    for m, rs in zip(mixes, mouts):
        for c, r in zip(m, rs):
            pairs.append((c, r))
            res.add_case(r["term"], c["params"].get("result") is not None)
            res.count("in_mix")
            for kind, what in oracle(c, r, None):
                res.failures.append(Failure(kind, what, c, r["obs"]))
            # a failing store of one job must not stop the others
        if any(c.get("store_fails") for c in m):
            for c, r in zip(m, rs):
                if not r["terminal_ok"]:
                    res.failures.append(Failure("store_failure_stops_worker", "a job in the same worker got no disposition", c))
    # chains: each attempt overwrites; Job.result returns the latest
    chains, couts = [], []
    for _ in range(ctx.scale(80, 800)):
        N = rng.randint(0, 3)
        pat = [rng.choice(["raise", "raise", "ok", "timeout"]) for _ in range(N + 1)]
        if "ok" in pat:
            pat = pat[:pat.index("ok") + 1]
        chains.append({"N": N, "pattern": pat, "by": rng.choice([None, None, 20 * S]), "mode": "jump",
                       "pol": rng.choice([("const", 2 * S), ("default", 1, 7, 2, 2)]), "result": rng.random() < 0.85})

    async def main2(loop):
        loop.set_exception_handler(lambda l, c: None)
        for c in chains:
            couts.append(await pr.run_chain(c, loop, intern))

    run_virtual(main2)
    items = []
    for c, r in zip(chains, couts):
        res.add_case(repr(c), c["result"])
        res.count("chain")
        ts = pr.chain_terms(c, r, intern)
        items += ts
        n = len(r["attempts"])
        if not c["result"]:
            if r["stores"]:
                res.failures.append(Failure("store_although_disabled", "chain with results disabled stored a bucket", c))
            continue
        if len(r["stores"]) != n:
            res.failures.append(Failure("store_count", f"{n} attempts, {len(r['stores'])} stores", c))
            continue
        last_kind = c["pattern"][n - 1]
        b = r["job_result"]
        if b is None:
            res.failures.append(Failure("result_not_readable", "Job.result is None after the chain", c))
            continue
        want_success = last_kind == "ok"
        ok = b.success == want_success and (
            (want_success and b.data == str(200 + n - 1) and b.exception is None) or
            (not want_success and last_kind == "raise" and b.data == str(100 + n - 1) and b.exception == f"E{100 + n - 1}") or
            (not want_success and last_kind == "timeout" and b.exception == "TimeoutError"))
        if not ok:
            res.failures.append(Failure("latest_attempt_not_stored", f"Job.result holds {b} after attempts {c['pattern'][:n]}", c))
        if ct.us_of_td(b.ttl) != 77 * S:
            res.failures.append(Failure("stored_ttl_wrong", "result ttl differs from Job(result_ttl=...)", c))
    res.samples = [{"coq": pairs[i][1]["term"], "impl_obs": pairs[i][1]["obs"]} for i in (0, len(pairs) // 2, len(pairs) - 1)]
    bad, mo = runmodel.run_cases("c13", "Sched Handle Ladder", "pcase_obs", [(r["term"], r["obs"]) for _, r in pairs])
    for i in bad:
        res.mismatches.append({"relation": "pcase_obs", "case": pairs[i][0], "coq": pairs[i][1]["term"],
                               "impl_obs": pairs[i][1]["obs"], "model_obs": mo.get(i)})
    bad2, mo = runmodel.run_cases("c13c", "Sched Handle Ladder", "chain_obs", items)
    for i in bad2:
        res.mismatches.append({"relation": "chain_obs", "coq": items[i][0], "impl_obs": items[i][1], "model_obs": mo.get(i)})
    res.model_cases = len(pairs) + len(items)
    res.traces_validated = res.model_cases - len(bad) - len(bad2)
    return res


def replay(ctx: Ctx, rp: dict) -> dict:
    from .c02 import _fix
    case = _fix(rp.get("case") or rp["first_diverging_case"]["case"])
    intern = ct.Interner()
    out = {}

    async def main(loop):
        loop.set_exception_handler(lambda l, c: None)
        r = await pr.run_process_case(case, loop, intern)
        twin = await pr.run_process_case(dict(case, store_fails=False), loop, intern) if case.get("store_fails") else None
        out.update({"coq": r["term"], "impl_obs": r["obs"], "oracle": oracle(case, r, twin)})

    run_virtual(main)
    out["fails"] = bool(out["oracle"])
    return out
