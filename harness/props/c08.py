"""C08 — arguments bind to the actor signature identically under every converter."""

import asyncio
import json
from typing import Annotated, Any

from .. import coqterm as ct
from .. import runmodel
from ..common import Ctx, Failure, Result

RULE = ("generated signatures (<= 6 parameters: positional-only, positional-or-keyword, keyword-only, defaults, *args, **kwargs, "
        "dependency parameters mixed in) turned into real async functions with exec; payloads: empty string, {}, exact, each "
        "key missing, extra keys, permuted; real BasicConverter / PydanticConverter / DefaultConverter objects, real call "
        "fn(*args, **kwargs, **deps); a sample also end to end through a Worker; distinct by printed Coq case; non-trivial = "
        "the declaration is accepted (conversion and binding are reached)")
TRUSTED = ["pydantic validation = lookup / default / ValidationError, extras ignored, values of the annotated type unchanged",
           "inspect.signature describes the function"]
ASSUMPTIONS = ["payloads are JSON objects (or the empty string); values are ints; annotations are absent (Any)"]
KNOWN = "varpos_extras_collide_with_keyword"
KIND_T = {"po": "PosOnly", "pk": "PosOrKw", "ko": "KwOnly", "vp": "VarPos", "vk": "VarKw"}


def gen_sig(rng):
    """list of dict(name:int, kind, default:int|None, dep:bool) in a valid Python order."""
    n_po = rng.choice([0, 0, 1, 2])
    n_pk = rng.choice([0, 1, 2, 3])
    n_ko = rng.choice([0, 0, 1, 2])
    vp = rng.random() < 0.3
    vk = rng.random() < 0.3
    ps, name = [], 1
    seen_default = False
    for kind, n in (("po", n_po), ("pk", n_pk)):
        for _ in range(n):
            dep = kind == "pk" and rng.random() < 0.2 or (kind == "po" and rng.random() < 0.04)
            d = None
            if seen_default or rng.random() < 0.35:
                d = 100 + name
                seen_default = True
            ps.append({"name": name, "kind": kind, "default": d, "dep": dep})
            name += 1
    if vp:
        ps.append({"name": name, "kind": "vp", "default": None, "dep": False})
        name += 1
    for _ in range(n_ko):
        ps.append({"name": name, "kind": "ko", "default": (100 + name) if rng.random() < 0.5 else None, "dep": rng.random() < 0.2})
        name += 1
    if vk:
        ps.append({"name": name, "kind": "vk", "default": None, "dep": False})
    return ps[:7]


def make_fn(sig, seen: list):
    """exec a real async def with that signature; it records its locals."""
    from repid import Depends

    parts, ns = [], {"Annotated": Annotated, "Depends": Depends, "SEEN": seen}
    prev = None
    for p in sig:
        if prev == "po" and p["kind"] != "po":
            parts.append("/")
        if p["kind"] == "ko" and not any(x["kind"] == "vp" for x in sig) and "*" not in parts:
            parts.append("*")
        nm = f"p{p['name']}"
        if p["kind"] == "vp":
            parts.append(f"*{nm}")
        elif p["kind"] == "vk":
            parts.append(f"**{nm}")
        else:
            ann = ""
            if p["dep"]:
                ns[f"prov{p['name']}"] = (lambda v: (lambda: v))(7000 + p["name"])
                ann = f": Annotated[int, Depends(prov{p['name']})]"
            parts.append(nm + ann + (f" = {p['default']}" if p["default"] is not None else ""))
        prev = p["kind"]
    if sig and sig[-1]["kind"] == "po":
        parts.append("/")
    src = f"async def actor_fn({', '.join(parts)}):\n    SEEN.append(dict(locals()))\n    return 1\n"
    exec(src, ns)  # noqa: S102
    return ns["actor_fn"], src


def sig_term(sig) -> str:
    return ct.lst(f"(mkParam {p['name']} {KIND_T[p['kind']]} {ct.opt(p['default'])} {ct.B(p['dep'])})" for p in sig)


def payload_term(pl) -> str:
    if pl is None:
        return "None"
    return "(Some " + ct.lst(f"({k}, {v})" for k, v in pl) + ")"


def payloads(rng, sig):
    named = [p for p in sig if p["kind"] in ("po", "pk", "ko") and not (p["dep"] and p["kind"] != "po")]
    exact = [(p["name"], 10 * p["name"] + 1) for p in named]
    outs = [None, [], exact]
    extra = [(50, 501), (51, 511)]
    for i in range(len(exact)):
        outs.append(exact[:i] + exact[i + 1:])
        # one parameter missing AND unknown keys in its place (producer / worker version skew): as long as, or longer
        # than, the signature
        outs.append(exact[:i] + exact[i + 1:] + extra[:1])
        outs.append(extra + exact[:i] + exact[i + 1:])
    outs.append(exact + extra)
    outs.append(extra[:1] + exact)
    perm = exact + extra[:1]
    rng.shuffle(perm)
    outs.append(perm)
    req = [(p["name"], 10 * p["name"] + 1) for p in named if p["default"] is None]
    outs.append(req)
    outs.append(req + extra)
    return outs


def observe(conv_cls, sig, pl):
    """Returns ([1]|[2]|[3,...], detail)"""
    seen: list = []
    fn, src = make_fn(sig, seen)
    try:
        conv = conv_cls(fn)
    except ValueError as e:
        return [1], f"declaration refused: {e}"
    return observe_conv(conv, fn, seen, sig, pl)


def observe_conv(conv, fn, seen, sig, pl):
    """One message through an existing converter (a converter lives as long as its actor's registration)."""
    del seen[:]
    data = "" if pl is None else json.dumps({f"p{k}": v for k, v in pl})
    deps = {f"p{p['name']}": 7000 + p["name"] for p in sig if p["dep"] and p["kind"] in ("pk", "ko")}
    if set(conv.dependencies) != set(deps):
        return [-1], "dependency set differs"
    try:
        args, kwargs = conv.convert_inputs(data)
    except Exception as e:  # noqa: BLE001
        return [2], f"convert_inputs raised {type(e).__name__}"
    try:
        coro = fn(*args, **kwargs, **deps)
    except TypeError as e:
        return [2], f"call raised TypeError: {e}"
    loop = asyncio.new_event_loop()
    try:
        loop.run_until_complete(coro)
    finally:
        loop.close()
    loc = seen[0]
    named, va, vk = [], [], []
    for p in sig:
        v = loc[f"p{p['name']}"]
        if p["kind"] == "vp":
            va = list(v)
        elif p["kind"] == "vk":
            vk = [(int(k[1:]), x) for k, x in v.items()]
        else:
            named.append((p["name"], v))
    try:
        obs = [3, len(named)] + [int(x) for kv in named for x in kv] + [len(va)] + [int(x) for x in va] + [len(vk)] + [int(x) for kv in vk for x in kv]
    except (TypeError, ValueError):
        return [-2], f"actor received a non-payload value: {named} {va} {vk}"
    return obs, {"named": named, "varargs": va, "varkw": vk}


def oracle(sig, pl, cname, obs, detail):
    bad = []
    named = [p for p in sig if p["kind"] in ("po", "pk", "ko")]
    payload_named = [p for p in named if not (p["dep"] and p["kind"] != "po")]
    given = dict(pl or [])
    if obs[0] in (-1, -2):
        bad.append(("made_up_value" if obs[0] == -2 else "dependency_set", str(detail)))
        return bad
    if obs[0] == 1:
        must = any(p["dep"] and p["kind"] == "po" for p in sig) or (cname != "basic" and any(p["kind"] in ("vp", "vk") for p in sig))
        if not must:
            bad.append(("declaration_refused", f"supported declaration refused: {detail}"))
        return bad
    if any(p["dep"] and p["kind"] == "po" for p in sig) or (cname != "basic" and any(p["kind"] in ("vp", "vk") for p in sig)):
        bad.append(("unsupported_declaration_accepted", "unsupported declaration was accepted at declaration time"))
        return bad
    missing = [p for p in payload_named if p["default"] is None and p["name"] not in given]
    if obs[0] == 2:
        if missing:
            return bad          # required and absent: failing is what the property demands
        extras = [k for k in given if k not in {p["name"] for p in payload_named}]
        has_vp = any(p["kind"] == "vp" for p in sig)
        has_vk = any(p["kind"] == "vk" for p in sig)
        kw_before = any(p["kind"] == "pk" for p in sig)
        if pl is not None and extras and has_vp and not has_vk and kw_before:
            bad.append((KNOWN, "def f(a, *args) with extra payload entries: the extras spill positionally and collide with "
                               "the keyword argument (TypeError), the actor does not run"))
        else:
            bad.append(("spurious_failure", f"all required parameters present but the execution failed: {detail}"))
        return bad
    if missing:
        bad.append(("ran_with_missing_required", f"actor ran although the payload lacks {[p['name'] for p in missing]}"))
        return bad
    d = detail
    for n, v in d["named"]:
        p = next(q for q in named if q["name"] == n)
        if p["dep"] and p["kind"] != "po":
            if v != 7000 + n:
                bad.append(("dependency_value_wrong", f"p{n} got {v}"))
        elif n in given:
            if v != given[n]:
                bad.append(("wrong_entry_bound", f"p{n} got {v}, payload has {given[n]}"))
        elif v != p["default"]:
            bad.append(("default_not_used", f"p{n} got {v}, default is {p['default']}"))
    extras = [(k, v) for k, v in (pl or []) if k not in {p["name"] for p in payload_named}]
    if d["varkw"] and sorted(d["varkw"]) != sorted(extras):
        bad.append(("catch_all_wrong", f"**kwargs received {d['varkw']}, extras are {extras}"))
    if d["varargs"] and sorted(d["varargs"]) != sorted(v for _, v in extras):
        bad.append(("catch_all_wrong", f"*args received {d['varargs']}, extras are {extras}"))
    return bad


def run(ctx: Ctx) -> Result:
    from ..clock import install
    install()
    from repid import BasicConverter
    from repid.converter import DefaultConverter, PydanticConverter
    from repid._utils import JSON_ENCODER

    rng = ctx.rng()
    res = Result(rule=RULE)
    res.relations = ["bind_obs = declaration check; convert_inputs; fn(*args, **kwargs, **deps)"]
    convs = {"basic": (BasicConverter, "Basic"), "pydantic": (PydanticConverter, "Pydantic"), "default": (DefaultConverter, "Pydantic")}
    sigs = [[{"name": 1, "kind": "pk", "default": None, "dep": False}, {"name": 2, "kind": "vp", "default": None, "dep": False}],
            [{"name": 1, "kind": "pk", "default": 101, "dep": False}, {"name": 2, "kind": "pk", "default": 102, "dep": False}],
            [{"name": 1, "kind": "pk", "default": None, "dep": False}, {"name": 2, "kind": "pk", "default": 102, "dep": False}],
            []]
    sigs += [gen_sig(rng) for _ in range(ctx.scale(230, 3000))]
    cases, meta = [], []
    per_sig_obs = {}
    for si, sig in enumerate(sigs):
        for pl in payloads(rng, sig):
            for cname, (cls, cterm) in convs.items():
                if cname == "default" and rng.random() < 0.6:
                    continue
                obs, detail = observe(cls, sig, pl)
                term = f"({cterm}, {sig_term(sig)}, {payload_term(pl)})"
                cases.append((term, obs))
                meta.append({"sig": sig, "payload": pl, "converter": cname})
                res.add_case(term + cname, obs[0] != 1)
                res.count(f"{cname}:{ {1: 'rejected', 2: 'failed', 3: 'called'}.get(obs[0], 'odd')}")
                per_sig_obs[(si, json.dumps(pl), cname)] = obs
                for kind, what in oracle(sig, pl, cname, obs, detail):
                    res.failures.append(Failure(kind, what, meta[-1], detail if isinstance(detail, str) else obs))
            # converters agree on signatures both accept (below); first, a converter serves many messages: what one
            # message binds must not depend on the messages before it
            b, p_ = per_sig_obs.get((si, json.dumps(pl), "basic")), per_sig_obs.get((si, json.dumps(pl), "pydantic"))
            if b and p_ and b[0] != 1 and p_[0] != 1 and b != p_:
                res.failures.append(Failure("converters_disagree", f"basic {b} vs pydantic {p_}", {"sig": sig, "payload": pl}))
    # one long-lived converter per (signature, converter class): every payload again, in two orders
    for si, sig in enumerate(sigs):
        pls = None
        for cname, (cls, cterm) in convs.items():
            if cname == "default":
                continue
            seen: list = []
            fn, _src = make_fn(sig, seen)
            try:
                conv = cls(fn)
            except ValueError:
                continue
            keys = [k for k in per_sig_obs if k[0] == si and k[2] == cname]
            order = keys + keys[::-1]
            for k in order:
                pl = json.loads(k[1])
                pl = None if pl is None else [tuple(x) for x in pl]
                obs, detail = observe_conv(conv, fn, seen, sig, pl)
                res.evaluations += 1
                res.count("long_lived_converter_messages")
                if obs != per_sig_obs[k]:
                    res.failures.append(Failure("converter_keeps_state_between_messages",
                                                f"{cname}: payload {pl} binds {obs} after earlier messages, {per_sig_obs[k]} on a fresh converter",
                                                {"sig": sig, "payload": pl, "converter": cname, "sequence": [json.loads(x[1]) for x in order]}))
                    break
    # return values: the encoded return value decodes to the value returned (a test, not a theorem)
    vals = [0, -1, 1.5, "x", "", None, True, [1, [2, {"a": None}]], {"k": [1, 2, {"z": "é"}]}, {"a": {"b": {"c": []}}}]
    async def ret(): ...
    for cls in (BasicConverter, PydanticConverter):
        c = cls(ret)
        for v in vals:
            res.evaluations += 1
            res.count("convert_outputs")
            if json.loads(c.convert_outputs(v)) != v:
                res.failures.append(Failure("return_value_roundtrip", f"{cls.__name__}.convert_outputs({v!r}) does not decode back", {"value": v}))
    res.samples = [{"coq": cases[i][0], "impl_obs": cases[i][1], "python": make_fn(meta[i]["sig"], [])[1]} for i in (0, len(cases) // 2, len(cases) - 1)]
    bad, mo = runmodel.run_cases("c08", "Bind", "bind_obs", cases)
    for i in bad:
        res.mismatches.append({"relation": "bind_obs", "case": meta[i], "coq": cases[i][0], "impl_obs": cases[i][1], "model_obs": mo.get(i)})
    res.model_cases = len(cases)
    res.traces_validated = len(cases) - len(bad)
    return res


def replay(ctx: Ctx, rp: dict) -> dict:
    from ..clock import install
    install()
    from repid import BasicConverter
    from repid.converter import DefaultConverter, PydanticConverter
    case = rp.get("case") or rp["first_diverging_case"]["case"]
    cls = {"basic": BasicConverter, "pydantic": PydanticConverter, "default": DefaultConverter}[case.get("converter", "basic")]
    pl = None if case["payload"] is None else [tuple(x) for x in case["payload"]]
    obs, detail = observe(cls, case["sig"], pl)
    o = oracle(case["sig"], pl, case.get("converter", "basic"), obs, detail)
    return {"fails": bool(o), "impl_obs": obs, "detail": detail, "oracle": o, "python": make_fn(case["sig"], [])[1]}
