"""C09 — concurrency never exceeds tasks_limit and the worker never stalls."""
from .. import runrun
from ..common import Ctx, Failure, Result
from ..vloop import run_virtual
from . import c10

S = runrun.S
RULE = ("a real Worker in virtual time: tasks_limit 1..5 shared by 1-3 queues, 1-30 jobs, duration profiles (zero, equal, uneven, "
        "long), arrivals before the start, in bursts while the worker is saturated and at the instants slots free, some jobs "
        "failing; observed: the running maximum of actor bodies in progress, that every job is executed exactly once and "
        "the whole workload completes within the list-scheduling bound (sum/limit + max duration + polling overhead), and "
        "the recorded trace (deliveries, limiter acquire/release, pause/unpause, spawns, completions) accepted by Runner.v; "
        "also runs with messages_limit. Distinct by the printed Coq trace; non-trivial = more jobs than tasks_limit and at "
        "least one actor longer than the fetch time (the limiter was contended)")
TRUSTED = c10.TRUSTED
ASSUMPTIONS = ["the event loop is fair (runs every ready task); actors end when cancelled"]


def extra(sc: dict, r: dict) -> list:
    bad = []
    if r["max_running"] > sc["limit"]:
        bad.append(("limit_exceeded", f"tasks_limit={sc['limit']}, {r['max_running']} actor bodies were in progress at once"))
    if sc["M"] is None and not r["err"]:
        arrived = [j for j in sc["jobs"] if j["id"] in r["params0"]]
        missing = [j["id"] for j in arrived if j["id"] not in r["starts"]]
        if missing:
            bad.append(("jobs_never_executed", f"jobs {missing[:8]} were deliverable, slots were free, and they were not executed before the stop"))
        # completion bound (greedy list scheduling): sum/limit + max + polling overhead
        ends = [e for e in r["events"] if e["kind"] == "actor_end"]
        if ends and not missing:
            t_done = max(e["t"] for e in ends) - r["t0"]
            last_arrival = max([j["at"] for j in sc["jobs"]] + [0])
            total = sum(j["dur"] for j in sc["jobs"])
            bound = (last_arrival + total // sc["limit"] + max(j["dur"] for j in sc["jobs"]) + 3000 * len(sc["jobs"]) + 50_000
                     + int(2 * sc.get("pause_round_trip", 0.0) * 1_000_000) * len(sc["jobs"]))
            if t_done > bound:
                bad.append(("worker_stalled", f"workload finished after {t_done} us, list-scheduling bound {bound} us"))
    return bad


def run(ctx: Ctx) -> Result:
    rng = ctx.rng()
    res = Result(rule=RULE)
    res.relations = ["runner_obs: the recorded event trace is accepted by Runner.step_ev and ends in the observed counters and leftovers"]
    scs = [c10.gen(rng, with_limit=rng.random() < 0.2) for _ in range(ctx.scale(260, 4000))]
    for sc in scs:
        if sc["M"] is None and rng.random() < 0.3:
            # a consumer whose pause() / unpause() are round trips (as RabbitMQ's basic.qos): slots free while they are on the wire
            sc["pause_round_trip"] = rng.choice([0.0005, 0.005, 0.05])
    for sc in scs:
        if sc["M"] is None:
            # arrivals exactly when slots free: at multiples of the common duration
            if rng.random() < 0.3 and sc["jobs"]:
                d = max(j["dur"] for j in sc["jobs"])
                for j in sc["jobs"][len(sc["jobs"]) // 2:]:
                    j["at"] = d * rng.randint(1, 3) if d else 0
                sc["stop_at"] = sum(j["dur"] for j in sc["jobs"]) + max(j["at"] for j in sc["jobs"]) + 2 * S
    for sc in scs:
        if sc.get("pause_round_trip") and sc.get("stop_at") is not None:
            # the stop must come after the work is done: every job may cost a pause and an un-pause round trip
            sc["stop_at"] += int(2 * sc["pause_round_trip"] * 1_000_000) * (len(sc["jobs"]) + 1)
    c10.run_scenarios(ctx, res, scs, "c09", extra_oracle=extra)
    return res


def replay(ctx: Ctx, rp: dict) -> dict:
    sc = (rp.get("case") or rp.get("first_diverging_case", {}).get("case"))["scenario"]
    out = {}

    async def main(loop):
        loop.set_exception_handler(lambda l, c: None)
        r = await runrun.run_scenario(sc, loop)
        out.update({"starts": r["starts"], "ends": r["ends"], "err": r["err"], "max_running": r["max_running"],
                    "oracle": c10.oracle(sc, r) + extra(sc, r)})

    run_virtual(main, record_tasks=True)
    out["fails"] = bool(out["oracle"])
    return out
