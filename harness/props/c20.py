"""C20 — the health endpoint tells the truth and cannot be knocked over (real sockets, real-time loop)."""

import asyncio
import socket

from .. import coqterm as ct
from .. import runmodel
from ..common import Ctx, Failure, Result

RULE = ("byte strings sent over loopback TCP to the health server of a real running Worker (2 queues): valid requests with "
        "header/version variants, wrong paths/methods, every prefix of a valid request, binary and invalid UTF-8, space/CRLF "
        "edge cases, 1 MiB bodies, requests split across packets, 200 concurrent connections, generated endpoint names; before and "
        "after an injected consumer failure, with a connection opened before the failure and used after it; port state before "
        "start, after normal return and after cancellation of run(); jobs processed meanwhile; distinct by (endpoint, status, "
        "bytes); non-trivial = the bytes decode and contain a blank line (request-line parsing is reached)")
TRUSTED = ["asyncio closes only the affected transport when data_received raises (observed: the server keeps answering)",
           "single small writes on loopback arrive as one data_received call (bigger or split sends are compared on their first "
           "packet / by the oracle only)"]
ASSUMPTIONS = ["bytes.decode() (UTF-8, strict) is applied by the harness to produce the model input"]


def free_port() -> int:
    s = socket.socket()
    s.bind(("127.0.0.1", 0))
    p = s.getsockname()[1]
    s.close()
    return p


async def port_open(port: int) -> bool:
    try:
        r, w = await asyncio.wait_for(asyncio.open_connection("127.0.0.1", port), 1.0)
        w.close()
        return True
    except (OSError, asyncio.TimeoutError):
        return False


async def send(port: int, chunks: list, gap: float = 0.03, pre=None) -> int:
    """Returns 200/503/404, 0 = connection closed without a response, -1 = no answer within the time limit, -2 refused."""
    try:
        if pre is None:
            r, w = await asyncio.wait_for(asyncio.open_connection("127.0.0.1", port), 2.0)
        else:
            r, w = pre
    except (OSError, asyncio.TimeoutError):
        return -2
    try:
        sock = w.get_extra_info("socket")
        if sock is not None:
            sock.setsockopt(socket.IPPROTO_TCP, socket.TCP_NODELAY, 1)
        for i, c in enumerate(chunks):
            if i:
                await asyncio.sleep(gap)
            try:
                w.write(c)
                await w.drain()
            except (ConnectionError, OSError):
                break
        try:
            data = await asyncio.wait_for(r.read(4096), 3.0)
        except asyncio.TimeoutError:
            return -1
        except (ConnectionError, OSError):
            return 0
        if not data:
            return 0
        try:
            return int(data.split(b" ", 2)[1])
        except Exception:  # noqa: BLE001
            return -3
    finally:
        try:
            w.close()
        except Exception:  # noqa: BLE001
            pass


def requests_for(ep: str, rng, n_random: int) -> list:
    e = ep.encode()
    valid = b"GET " + e + b" HTTP/1.1\r\nHost: localhost\r\n\r\n"
    out = [[valid], [b"GET " + e + b" HTTP/1.1\r\n\r\n"], [b"GET " + e + b" x\r\n\r\nbody \r\n\r\n more"],
           [b"GET " + e + b" HTTP/1.1\r\nA: b\r\nC: d e f\r\n\r\n"], [b"GET " + e + b"  HTTP/1.1\r\n\r\n"],
           [b"GET  " + e + b" HTTP/1.1\r\n\r\n"], [b"get " + e + b" HTTP/1.1\r\n\r\n"], [b"POST " + e + b" HTTP/1.1\r\n\r\n"],
           [b"GET " + e + b"/ HTTP/1.1\r\n\r\n"], [b"GET " + e + b"?x=1 HTTP/1.1\r\n\r\n"], [b"GET /" + e + b" HTTP/1.1\r\n\r\n"],
           [b"GET " + e[:-1] + b" HTTP/1.1\r\n\r\n"], [b"GET / HTTP/1.1\r\n\r\n"], [b"GET " + e + b"\r\n\r\n"],
           [b"GET" + e + b" HTTP/1.1\r\n\r\n"], [b"\r\n\r\n"], [b" \r\n\r\n"], [b"  \r\n\r\n"], [b"\r\n\r\nGET " + e + b" x\r\n\r\n"],
           [b"GET " + e + b" HTTP/1.1\n\n"], [b"GET " + e + b" HTTP/1.1\r\n"], [b"\x00\x01\x02"], [b"\xff\xfe\xfd\r\n\r\n"],
           [b"GET " + e + b" \xc3\x28\r\n\r\n"], ["GET ".encode() + e + " ü\r\n\r\n".encode()], [b"G"], [b"GET " + e + b" a b c d\r\n\r\n"],
           [b"X" * 70000 + b"\r\n\r\n"], [valid + b"Z" * (1 << 20)], [b"GET " + e + b" H\r\n\r\n" + b"\x00" * 300000]]
    for k in range(1, len(valid)):
        out.append([valid[:k]])
    # split across packets
    for k in (1, 3, 4, len(e) + 4, len(valid) - 3, len(valid) - 1):
        out.append([valid[:k], valid[k:]])
    alphabet = [b"GET", b" ", e, b"\r\n", b"\r\n\r\n", b"HTTP/1.1", b"/", b"\xff", b"\x00", b"A", b"\r", b"\n", b"POST"]
    for _ in range(n_random):
        out.append([b"".join(rng.choice(alphabet) for _ in range(rng.randint(1, 9)))])
    return out


def model_input(chunks: list):
    """What the first data_received call sees, decoded (None = undecodable), or 'skip' when it is not determined."""
    first = chunks[0]
    if len(first) > 16000:
        return "skip"
    try:
        return [ord(c) for c in first.decode()]
    except UnicodeDecodeError:
        return None


async def scenario(ctx: Ctx, res: Result, ep: str, rng, cases, meta, kind: str):
    from repid import HealthCheckServerSettings, Router

    from ..world import MemMessage, World, key

    w = World()
    await w.declare("qa", "qb")
    done = []
    router = Router()

    async def act_a(x: int = 0):
        if x == 1:
            await asyncio.sleep(0.25)        # a job still in flight while the worker drains
        done.append("a")

    async def act_b(x: int = 0):
        done.append("b")

    router.actor(act_a, name="act_a", queue="qa")
    router.actor(act_b, name="act_b", queue="qb")
    port = free_port()
    case0 = {"endpoint": ep, "scenario": kind}
    if await port_open(port):
        res.failures.append(Failure("port_open_before_run", "port accepts connections before the worker runs", case0))
    n_jobs = 40
    worker = w.worker([router], run_health_check_server=True, graceful_shutdown_time=0.3, messages_limit=n_jobs,
                      health_check_server_settings=HealthCheckServerSettings(address="127.0.0.1", port=port, endpoint_name=ep))
    task = asyncio.ensure_future(worker.run())
    for _ in range(200):
        if await port_open(port):
            break
        await asyncio.sleep(0.01)
    else:
        res.failures.append(Failure("port_never_opened", "health server not reachable while the worker runs", case0))
        task.cancel()
        return
    jid = [0]

    def enqueue(q, topic, n):
        for _ in range(n):
            jid[0] += 1
            w.mb.queues[q].simple.put_nowait(MemMessage(key(f"j{jid[0]}", topic, q), "", w.mb.PARAMETERS_CLASS()))

    valid = [b"GET " + ep.encode() + b" HTTP/1.1\r\nHost: x\r\n\r\n"]
    reqs = requests_for(ep, rng, ctx.scale(60, 600))

    async def phase(healthy: bool, label: str):
        enqueue("qa", "act_a", 8)
        before = len(done)
        B = 50
        for i in range(0, len(reqs), B):
            batch = reqs[i:i + B]
            codes = await asyncio.gather(*(send(port, c) for c in batch))
            for c, code in zip(batch, codes):
                mi = model_input(c)
                m = {"endpoint": ep, "healthy": healthy, "chunks": [x[:200].hex() + ("..." if len(x) > 200 else "") for x in c],
                     "phase": label}
                nontrivial = mi not in (None, "skip") and ([13, 10, 13, 10] == mi[-4:] or "\r\n\r\n" in "".join(map(chr, mi)))
                res.add_case(f"{ep}|{healthy}|{[x[:400] for x in c]!r}", bool(nontrivial))
                res.count("resp:" + str(code))
                if code in (-1, -2, -3):
                    res.failures.append(Failure("no_clean_answer", f"connection got {code} (-1 hang, -2 refused, -3 garbage)", m))
                    continue
                if code == (503 if healthy else 200):
                    res.failures.append(Failure("wrong_status_reported", f"server answered {code} while healthy={healthy}", m))
                if mi != "skip":
                    term = f"({ct.zlist(ord(x) for x in ep)}, {ct.B(healthy)}, {ct.opt(mi, ct.zlist)})"
                    cases.append((term, [0] if code == 0 else [1, code]))
                    meta.append(m)
        # the server still answers, and jobs were processed meanwhile
        code = await send(port, valid)
        if code != (200 if healthy else 503):
            res.failures.append(Failure("server_knocked_over", f"after the byte strings a valid GET is answered {code}", {**case0, "phase": label}))
        for _ in range(300):
            if len(done) >= before + 8:
                break
            await asyncio.sleep(0.01)
        if len(done) < before + 8:
            res.failures.append(Failure("processing_disturbed", "jobs enqueued during the requests were not processed", {**case0, "phase": label}))

    await phase(True, "healthy")
    # 200 concurrent connections
    codes = await asyncio.gather(*(send(port, valid) for _ in range(200)))
    res.evaluations += 200
    res.count("concurrent_connections", 200)
    if any(c != 200 for c in codes):
        res.failures.append(Failure("concurrent_connections_fail", f"{sum(c != 200 for c in codes)} of 200 concurrent GETs not answered 200", case0))
    # a connection opened before the failure, used after it
    pre = await asyncio.open_connection("127.0.0.1", port)
    w.mb.fail_consume_queue = "qb"
    enqueue("qb", "act_b", 1)
    for _ in range(300):
        if await send(port, valid) == 503:
            break
        await asyncio.sleep(0.01)
    else:
        res.failures.append(Failure("failure_not_reported", "consumer failed but GET does not answer 503", case0))
    code = await send(port, valid, pre=pre)
    res.evaluations += 1
    res.count("connection_opened_before_failure")
    if code != 503:
        res.failures.append(Failure("stale_status_on_open_connection",
                                    f"a connection opened before the consumer failure answered {code} after it", case0))
    await phase(False, "unhealthy")
    if kind == "normal":
        enqueue("qa", "act_a", max(0, n_jobs - len([d for d in done if d == 'a']) - 1))
        # the last allowed job is slow: the worker stops consuming and drains while it runs; a consumer HAS failed, so
        # every answer until the port closes must still be 503
        jid[0] += 1
        w.mb.queues["qa"].simple.put_nowait(MemMessage(key(f"j{jid[0]}", "act_a", "qa"), '{"x": 1}', w.mb.PARAMETERS_CLASS()))
        enqueue("qa", "act_a", 2)
        drain_codes = []
        while not task.done() and len(drain_codes) < 200:
            c = await send(port, valid)
            if c in (200, 503):
                drain_codes.append(c)
            await asyncio.sleep(0.02)
        res.evaluations += len(drain_codes)
        res.count("probes_while_draining", len(drain_codes))
        if any(c == 200 for c in drain_codes):
            res.failures.append(Failure("failure_forgotten_while_draining",
                                        f"a consumer has failed, yet {sum(c == 200 for c in drain_codes)} of {len(drain_codes)} probes "
                                        "answered 200 while the worker was finishing its last jobs", case0))
        try:
            await asyncio.wait_for(task, 10.0)
        except asyncio.TimeoutError:
            res.failures.append(Failure("run_does_not_return", "worker did not return after messages_limit", case0))
            task.cancel()
    else:
        task.cancel()
        try:
            await asyncio.wait_for(task, 5.0)
        except (asyncio.CancelledError, asyncio.TimeoutError, Exception):  # noqa: BLE001
            pass
    await asyncio.sleep(0.05)
    res.evaluations += 1
    res.count("port_after_" + kind)
    if await port_open(port):
        res.failures.append(Failure("port_open_after_cancelled_run" if kind == "cancel" else "port_open_after_run",
                                    f"the port still accepts connections after run() {'was cancelled' if kind == 'cancel' else 'returned'}", case0))
        srv = worker.health_check_server
        if srv is not None:
            await srv.stop()


def run(ctx: Ctx) -> Result:
    from ..clock import install
    install()
    rng = ctx.rng()
    res = Result(rule=RULE)
    res.relations = ["http_obs = response class of the first data_received call"]
    cases, meta = [], []
    eps = ["/healthz", "/h"] + (["/a/b-c_d", "/ü", "/x%20y"] if ctx.thorough else ["/a/b-c_d"])

    async def main():
        asyncio.get_running_loop().set_exception_handler(lambda l, c: None)
        for i, ep in enumerate(eps):
            await scenario(ctx, res, ep, rng, cases, meta, "normal" if i % 2 == 0 else "cancel")

    loop = asyncio.new_event_loop()
    asyncio.set_event_loop(loop)
    try:
        loop.run_until_complete(main())
    finally:
        asyncio.set_event_loop(None)
        loop.close()
    res.samples = [{"coq": cases[i][0][:300], "impl_obs": cases[i][1], "meta": meta[i]} for i in (0, len(cases) // 2, len(cases) - 1)]
    bad, mo = runmodel.run_cases("c20", "Http", "http_obs", cases, shard=150)
    for i in bad:
        res.mismatches.append({"relation": "http_obs", "case": meta[i], "coq": cases[i][0][:2000], "impl_obs": cases[i][1], "model_obs": mo.get(i)})
    res.model_cases = len(cases)
    res.traces_validated = len(cases) - len(bad)
    return res


def replay(ctx: Ctx, rp: dict) -> dict:
    res = run(ctx)
    kinds = sorted({f.kind for f in res.failures})
    return {"fails": rp.get("kind") in kinds or (rp.get("kind") == "correspondence" and bool(res.mismatches)), "kinds_seen": kinds}
