"""C05 — delayed messages are never delivered early and never forgotten (in-memory broker)."""
from ..common import Ctx, Failure, Result
from .. import memrun
from . import _mem, _redis
from . import _rabbit

S = memrun.S
RULE = ("histories over one or two queues with a normal, a topic-filtered normal and a delayed-category consumer: enqueues and "
        "requeues whose next execution time lies in the past, exactly now, 1 us..1 ms..sub-second (every tenth, random "
        "microsecond offsets)..seconds ahead (explicit next_execution_time, deferred_until, defer_by grids), clock advances from "
        "1 us to seconds, short and long consumes, consumes that are already polling when the message is enqueued (enqueue at "
        "every polling phase), rejects / finishes of messages taken through the delayed category; distinct by the printed Coq op "
        "list; non-trivial = a delayed message is involved in a delivery, or a listening consumer waits across a due time")
TRUSTED = ["brokers: in-memory (concurrent histories, cancellation), Redis client over harness/fakeredis.py = coq/RedisSrv.v (sequential histories of one client), RabbitMQ client over harness/fakeamqp.py = coq/AmqpSrv.v (sequential histories, fixed callback schedule); RedisSrv.v and AmqpSrv.v are descriptions of the servers written from their documentation, not compared with real servers (none available)",
           "the bound on the delivery latency after T (one update period of 1 s + 3 ms + 1 ms per waiting message) is checked by "
           "the oracle on the real consumer in virtual time; the theorem behind it (every update pass moves every due entry) "
           "does not bound the number of polls between passes"]
ASSUMPTIONS = ["the clock is non-decreasing", "clients are well-behaved (fresh ids, terminal actions on held messages)"]
WHICH = {"C05"}

OFFS = [-S, -1000, -1, 0, 1, 500, 999, 1000, 1001, 1500, 2500, 30_000, 100_000, 200_000, 300_000, 400_000, 500_000,
        600_000, 700_000, 800_000, 900_000, 999_999, S, S + 1, 2 * S, 5 * S, 3600 * S]


def gen(rng, n_ops: int) -> dict:
    queues = [1, 2] if rng.random() < 0.3 else [1]
    consumers = {1: (1, 0, None), 2: (1, 0, rng.choice([[1, 2], [1]])), 3: (1, 1, None)}
    if 2 in queues:
        consumers[4] = (2, 0, None)
    ops, known, nid = [], {}, 1

    def spec():
        r = rng.random()
        sp = {}
        if r < 0.55:
            sp["next"] = rng.choice(OFFS) if rng.random() < 0.7 else rng.randint(-2000, 1_200_000)
        elif r < 0.70:
            sp["until"] = rng.choice(OFFS)
            if rng.random() < 0.5:
                sp["by"] = rng.choice([S, 2 * S, 10 * S])
        elif r < 0.85:
            sp["by"] = rng.choice([S, 2 * S, 10 * S, 3600 * S])
            sp["ts"] = -rng.choice([0, 1, 500_000, S, S + 250_000, 7 * S])
        if rng.random() < 0.12:
            sp["ttl"] = rng.choice([3 * S, 100 * S])
        return sp

    for _ in range(n_ops):
        r = rng.random()
        if r < 0.30 or not known:
            q, t = rng.choice(queues), rng.choice([1, 1, 2, 3])
            ops.append({"op": "put", "id": nid, "queue": q, "topic": t, "params": spec()})
            known[nid] = (q, t)
            nid += 1
        elif r < 0.50:
            ops.append({"op": "consume", "c": rng.choice(list(consumers)),
                        "timeout": rng.choice([0.0005, 0.0035, 0.0105, 0.0105, 0.25, 1.25, 2.3])})
        elif r < 0.62:
            q, t = rng.choice(queues), rng.choice([1, 1, 2])
            c = rng.choice([c for c, (cq, cat, _) in consumers.items() if cq == q and cat == 0])
            ops.append({"op": "consume_with_put", "c": c, "id": nid, "queue": q, "topic": t, "params": spec(),
                        "after": rng.choice([0.0, 0.0004, 0.001, 0.0015, 0.0499, 0.3, 0.9995, 1.0005]),
                        "timeout": rng.choice([0.02, 0.6, 1.3, 2.4])})
            known[nid] = (q, t)
            nid += 1
        elif r < 0.66:
            ops.append({"op": "consume_many", "cs": rng.sample(list(consumers), 2), "timeout": rng.choice([0.0035, 0.3])})
        elif r < 0.80:
            ops.append({"op": "terminal"})
        elif r < 0.84:
            ops.append({"op": "finish", "c": rng.choice(list(consumers))})
        else:
            ops.append({"op": "tick", "d": rng.choice([1, 499, 500, 999, 1000, 1001, 3000, 50_000, 250_000, 999_999, S, 2 * S])})
    return {"queues": queues, "consumers": consumers, "ops": ops, "known": known}


def lateness(hist: dict, r: dict) -> list:
    """'never forgotten': a normal consumer that keeps listening until after T + bound has received the message
    (or another one).  Evaluated on single-consumer consume entries of the implementation's trace."""
    bad = []
    cspec = hist["consumers"]
    due, topic, queue = {}, {}, {}
    prev = None
    for n, e in enumerate(r["trace"]):
        if e["op"] in ("put", "requeue") and e.get("applied"):
            due[e["id"]] = _mem.due_of(e["params"], e["t"])
        if e["op"] == "consume" and cspec[e["c"]][1] == 0 and e["polls"]:
            q, _, topics = cspec[e["c"]]
            t_last = e["polls"][-1][0]
            places = e["after"]["places"]
            msgs = e["after"]["msgs"]
            if not e["delivered"]:
                n_wait = sum(1 for i, pl in places.items() if pl and pl[0][0] == "simple" and pl[0][1] == q)
                for i, pl in places.items():
                    if not pl or pl[0][1] != q or pl[0][0] not in ("delayed", "simple"):
                        continue
                    if topics is not None and msgs[i][2] not in topics:
                        continue
                    T = due.get(i)
                    if T is None:
                        T = e["t"]
                    exp = _mem.expiry_of(msgs[i][1])
                    if exp is not None and exp < t_last:
                        continue
                    # listening since before T (or since the enqueue), still listening after the bound
                    t_from = max(T, e["t"], e.get("put_at") or 0)
                    bound = 1_003_000 + 1000 * (n_wait + 2)
                    if t_last > t_from + bound:
                        bad.append(("delayed_forgotten",
                                    f"message {i} due at {T} not delivered to a listening consumer by {t_last} "
                                    f"(listening since {e['t']}, bound {bound} us)",
                                    {"step": n, "op": {k: v for k, v in e.items() if k not in ('after', 'got', 'polls')}}))
        prev = e
    return bad


def nontrivial(h: dict, r: dict) -> bool:
    """a delayed message takes part in a delivery, or a listening consumer waits across a due time"""
    due = {}
    for e in r["trace"]:
        if e["op"] in ("put", "requeue") and e.get("applied"):
            due[e["id"]] = _mem.due_of(e["params"], e["t"])
        if e["op"] == "consume":
            if e["delivered"] and due.get(e["delivered"]) is not None:
                return True
            if e["polls"] and any(T is not None and e["t"] <= T <= e["polls"][-1][0] for T in due.values()):
                return True
    return False


def run(ctx: Ctx) -> Result:
    rng = ctx.rng()
    res = Result(rule=RULE)
    res.relations = ["mem_obs: delivered id per poll (poll instants and update passes as recorded), abstract state after every call"]
    hists = [gen(rng, rng.randint(6, 40)) for _ in range(ctx.scale(500, 8000))]
    outs = _mem.run_histories(ctx, res, "c05", hists, WHICH, rng, nontrivial=nontrivial)
    for h, r in zip(hists, outs):
        seen = set()
        for kind, what, where in lateness(h, r) + _mem.due_overtaken(h, r):
            if kind not in seen:
                seen.add(kind)
                res.failures.append(Failure(kind, what, {"history": _mem.strip(h), "where": where}, None))
    _redis.run_seq(ctx, res, "c05r", {"C05"}, "delay", 150, 3000, rng)
    _rabbit.run_seq(ctx, res, "c05q", {"C05"}, "delay", 120, 2500, rng)
    return res


def replay(ctx: Ctx, rp: dict) -> dict:
    return _mem.replay_history(ctx, rp, WHICH, extra=lateness)
