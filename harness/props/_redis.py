"""Shared driver and oracles for the properties decided on the Redis client (over FakeRedis): C01 C05 C12 C14 C15.

(a) sequential histories: one client, one call at a time, consumers driven through consume_or_none(); the whole command /
reply stream, the message every take returns and the final server state are compared with RedisBroker.redis_obs, and the
property predicates are evaluated on the fake server's state after every call;
(b) concurrent runs: consumers with their background tasks started, several on one queue."""
import asyncio

from .. import coqterm as ct
from .. import redisrun, runmodel
from ..common import Ctx, Failure, Result
from ..vloop import run_virtual
from . import _mem

S = redisrun.S
DAY = 86400 * S


def gen_seq(rng, *, focus: str) -> dict:
    queues = [1] if rng.random() < 0.8 else [1, 2]
    consumers = {1: (1, 0, None), 2: (1, 0, rng.choice([[1], [1, 2]])), 3: (1, 1, None), 4: (1, 2, None)}
    if 2 in queues:
        consumers[5] = (2, 0, None)
    ops, nid = [], 1
    n_ops = rng.randint(5, 30)
    prios = [5] if focus == "fifo" or rng.random() < 0.5 else [0, 5, 5, 9]
    fifo_c = 1
    if focus == "fifo":
        if rng.random() < 0.4:
            # a block of messages of a topic the filtered consumer does not serve, as long as one or two fetch windows, at
            # the old end of the list - then the consumer with the filter does the taking
            fifo_c = 2
            for _ in range(rng.choice([9, 10, 11, 12, 19, 20, 21, 25])):
                ops.append({"op": "put", "id": nid, "queue": 1, "topic": 3, "prio": 5, "params": {}})
                nid += 1
        for _ in range(rng.randint(2, 26)):
            ops.append({"op": "put", "id": nid, "queue": 1, "topic": rng.choice([1, 1, 2, 3]), "prio": 5, "params": {}})
            nid += 1
    for _ in range(n_ops):
        r = rng.random()
        if r < 0.33:
            sp = {}
            if focus in ("delay", "any") and rng.random() < 0.55:
                sp["next"] = rng.choice([-S, -1, 0, 1, 100_000, 500_000, 900_000, 999_999, S, S + 1, 1_900_000, 3 * S]) \
                    if rng.random() < 0.7 else rng.randint(-100_000, 2_500_000)
            if focus in ("ttl", "any") and rng.random() < 0.5:
                sp["ttl"] = rng.choice([100_000, 150_000, S, 10 * S])
                sp["ts"] = -rng.choice([0, 50_000, 100_000])
            if focus == "death":
                # execution timeouts below and above a day, with and without a fraction of a second
                sp["timeout"] = rng.choice([600 * S, 600 * S, 90 * S + 500_000, DAY, DAY + 30 * S, 2 * DAY + S, 25 * 3600 * S])
            ops.append({"op": "put", "id": nid, "queue": rng.choice(queues), "topic": rng.choice([1, 1, 2, 3]),
                        "prio": rng.choice(prios), "params": sp})
            nid += 1
        elif r < 0.66:
            cs = [c for c in consumers]
            c = rng.choice([1, 1, 2] + cs) if focus != "fifo" else fifo_c
            ops.append({"op": "take", "c": c, "choice": rng.choice([0, 1, 1, 2])})
        elif r < 0.86:
            ops.append({"op": "terminal"})
        elif focus == "death" and r < 0.93:
            ops.append({"op": "maintenance"})
        else:
            ops.append({"op": "tick", "d": rng.choice([1, 50_000, 100_000, 150_000, 400_000, 999_999, S, 2_500_000] +
                                                      ([599 * S, 600 * S, 601 * S, 30 * S, 90 * S, 91 * S, 3600 * S, DAY - 600 * S, DAY - S, DAY + 31 * S, DAY]
                                                       if focus == "death" else []))})
    kinds = {"fifo": ["ack", "ack", "reject", "reject", "nack"], "ttl": ["ack", "nack", "reject", "requeue"],
             "death": ["ack", "requeue"]}.get(focus)
    if focus == "death":
        # a worker that dies: most taken messages are simply never disposed
        ops = [o for o in ops if o["op"] != "terminal" or rng.random() < 0.3]
    return {"queues": queues, "consumers": consumers, "ops": ops, "terminal_kinds": kinds}


def oracle_seq(hist: dict, r: dict, which: set) -> list:
    """Property predicates on the fake server's state after every call of a sequential history."""
    bad = []
    cspec = hist["consumers"]
    live, due, expiry, origin, arrival, n_arr = {}, {}, {}, {}, {}, 0
    info = {}
    prev_places = {}
    for n, e in enumerate(r["trace"]):
        places, hashes = e["after"]["places"], e["after"]["hashes"]
        op = e["op"]
        where = {"step": n, "op": {k: v for k, v in e.items() if k not in ("after", "params", "got")}}
        if op in ("put", "requeue"):
            i = e["id"]
            live[i] = 1
            due[i] = _mem.due_of(e["params"], e["t"])
            expiry[i] = _mem.expiry_of(e["params"])
            info[i] = (e["queue"], e["topic"], e["prio"])
            arrival.pop(i, None)
            if due[i] is None:
                arrival[i] = n_arr
                n_arr += 1
            if "C01" in which and op == "requeue":
                pl = places.get(i, [])
                want = "delayed" if due[i] is not None else "normal"
                if [p[0] for p in pl] != [want]:
                    bad.append(("redis_requeue_wrong_place", f"requeued message {i} is in {pl}, expected {want}", where))
                h = hashes.get(i)
                if h is None or h["payload"].decode() != e.get("payload", h["payload"].decode()) and False:
                    bad.append(("redis_requeue_not_replaced", f"message {i}: stored data not replaced", where))
        elif op == "ack":
            live[e["id"]] = 0
            if "C01" in which and e["id"] in hashes:
                bad.append(("redis_ack_keeps_data", f"after ack the data of message {e['id']} still exists", where))
        elif op == "nack":
            if "C01" in which and [p[0] for p in places.get(e["id"], [])] != ["dead"]:
                bad.append(("redis_nack_not_dead_lettered", f"after nack message {e['id']} is in {places.get(e['id'])}", where))
        elif op == "reject":
            i = e["id"]
            pl = [p[0] for p in places.get(i, [])]
            o = origin.get(i, "normal")
            # a delayed message whose time has come may go to the waiting list: what matters is dead <-> dead and no early waiting
            if "C01" in which and ((o == "dead") != (pl == ["dead"]) or len(pl) != 1):
                bad.append(("redis_reject_not_to_origin", f"taken from {o}, after reject in {pl}", where))
            if pl == ["normal"] and due.get(i) is None:
                arrival[i] = -1 - n            # returned: in front of everything waiting
        elif op == "take" and e["delivered"] is not None:
            i = e["delivered"]
            c = e["c"]
            q, cat, topics = cspec[c]
            t = e["t_return"]
            was = prev_places.get(i, [("?",)])
            origin[i] = was[0][0] if was else "?"
            if cat == 0:
                if "C05" in which and due.get(i) is not None and t // 1000 < due[i] // 1000:
                    bad.append(("redis_delivered_early", f"message {i} due at {due[i]} handed to a normal consumer at {t} "
                                f"({(due[i] - t) / 1e6:.3f} s early)", where))
                if "C12" in which and expiry.get(i) is not None and t > expiry[i]:
                    bad.append(("redis_expired_delivered", f"message {i} expired at {expiry[i]} delivered at {t}", where))
                if "C15" in which and i in arrival:
                    qi, ti, pi = info[i]
                    for j, a in arrival.items():
                        if j == i or a >= arrival[i] or info[j][0] != qi or info[j][2] != pi:
                            continue
                        pj = prev_places.get(j)
                        if not pj or pj[0][0] != "normal":
                            continue
                        if topics is not None and info[j][1] not in topics:
                            continue
                        if expiry.get(j) is not None and expiry[j] < t:
                            continue
                        bad.append(("redis_overtaken", f"message {i} (arrival {arrival[i]}) delivered while message {j} (arrival {a}) "
                                    "of the same priority and a served topic was waiting", where))
                        break
            if "C11" in which and topics is not None and info[i][1] not in topics:
                bad.append(("redis_foreign_topic_delivered", f"consumer with topics {topics} received topic {info[i][1]}", where))
        if op == "take" and e["delivered"] is None and "C12" in which and cspec[e["c"]][1] == 2:
            q = cspec[e["c"]][0]
            if any(pl and pl[0][0] == "dead" and pl[0][1] == q for pl in prev_places.values()):
                bad.append(("redis_dead_not_retrievable", "a dead-category consumer found the dead list non-empty and received nothing", where))
        if op == "take" and "C12" in which:
            for i, pl in places.items():
                was = prev_places.get(i)
                if pl and pl[0][0] == "dead" and was and was[0][0] in ("normal", "delayed"):
                    if expiry.get(i) is None or e["t"] <= expiry[i] and e["t_return"] <= expiry[i]:
                        bad.append(("redis_live_message_dead_lettered", f"message {i} (expiry {expiry.get(i)}) dead-lettered by a take at {e['t']}", where))
        if "C01" in which or "C14" in which:
            for i, want in live.items():
                k = len(places.get(i, []))
                if k < want:
                    bad.append(("redis_message_lost", f"message {i} is in no place", where))
                elif k > want:
                    bad.append(("redis_message_duplicated", f"message {i} is in {places.get(i)}", where))
        if "C05" in which:
            for i, pl in places.items():
                if pl and pl[0][0] == "normal" and due.get(i) is not None and e["after"].get("t", e["t"]) // 1000 < due[i] // 1000 \
                        and origin.get(i) != "delayed":
                    bad.append(("redis_waiting_before_due", f"message {i} due at {due[i]} is in the waiting list", where))
        prev_places = places
    return bad


def oracle_death(hist: dict, r: dict) -> list:
    """C03, death clause: a message taken by a worker that does nothing more with it stays marked as being processed until
    maintenance runs after its execution timeout (600 s here) has elapsed, and is deliverable again right after that."""
    bad = []
    taken_at: dict = {}
    timeout: dict = {}
    for n, e in enumerate(r["trace"]):
        places = e["after"]["places"]
        where = {"step": n, "op": {k: v for k, v in e.items() if k not in ("after", "params", "got")}}
        if e["op"] in ("put", "requeue"):
            timeout[e["id"]] = ct.us_of_td(e["params"].execution_timeout)
        if e["op"] == "take" and e["delivered"] is not None:
            taken_at[e["delivered"]] = e["t_return"]
        elif e["op"] in ("ack", "nack", "reject", "requeue"):
            taken_at.pop(e["id"], None)
        elif e["op"] == "maintenance":
            for i, t0 in list(taken_at.items()):
                pl = [p[0] for p in places.get(i, [])]
                # the processing mark carries whole seconds: decided on the second the take was stamped with
                elapsed_hi = e["t"] - (t0 // S) * S
                to = timeout.get(i, 600 * S)
                if elapsed_hi <= to - S and pl != ["processing"]:
                    bad.append(("redis_recovered_before_timeout", f"message {i} taken at {t0} was given back by maintenance at {e['t']} "
                                f"({elapsed_hi / 1e6:.1f} s), before its {to / 1e6:.1f} s execution timeout", where))
                if elapsed_hi > to + S:
                    if pl == ["processing"]:
                        bad.append(("redis_not_recovered_after_timeout", f"message {i} taken at {t0} is still marked as processed after "
                                    f"maintenance at {e['t']} ({elapsed_hi / 1e6:.1f} s > {to / 1e6:.1f} s)", where))
                    else:
                        taken_at.pop(i)
        for i in taken_at:
            if not places.get(i):
                bad.append(("redis_message_lost", f"message {i} held by a dead worker is in no place", where))
    return bad


def run_seq(ctx: Ctx, res: Result, tag: str, which: set, focus: str, n_quick: int, n_thorough: int, rng) -> None:
    hists = [gen_seq(rng, focus=focus) for _ in range(ctx.scale(n_quick, n_thorough))]
    outs = []
    ran = []
    for h in hists:
        async def main(loop, h=h):
            loop.set_exception_handler(lambda l, c: None)
            return await redisrun.run_sequential(h, loop, rng)
        try:
            out, _ = run_virtual(main, max_iterations=400_000)
        except Exception as ex:  # noqa: BLE001
            # a call that never returns (busy loop: the virtual loop's budget runs out) or that raises, or a command
            # outside the modelled subset: the history is the failing input
            kind = "redis_call_never_returns" if type(ex).__name__ == "VirtualDeadlock" else "redis_client_error"
            res.failures.append(Failure(kind, f"{type(ex).__name__}: {ex}"[:300],
                                        {"redis_history": {"queues": h["queues"], "consumers": {str(k): v for k, v in h["consumers"].items()},
                                                           "ops": h["ops"], "terminal_kinds": h.get("terminal_kinds")}}, None))
            res.count("redis_histories_that_failed_to_run")
            continue
        outs.append(out)
        ran.append(h)
    hists = ran
    cases = []
    for h, r in zip(hists, outs):
        took = sum(1 for e in r["trace"] if e["op"] == "take" and e["delivered"] is not None)
        term = sum(1 for e in r["trace"] if e["op"] in ("ack", "nack", "reject", "requeue"))
        res.add_case("redis:" + r["term"], took >= 1 and term >= 1)
        res.count("redis_seq_histories")
        res.count("redis_server_steps", len(r["world"].srv.log))
        cases.append((r["term"], r["obs"]))
        seen = set()
        for kind, what, where in oracle_seq(h, r, which) + (oracle_death(h, r) if focus == "death" else []):
            if kind not in seen:
                seen.add(kind)
                res.failures.append(Failure(kind, what, {"redis_history": {"queues": h["queues"], "consumers": {str(k): v for k, v in h["consumers"].items()},
                                                                            "ops": h["ops"], "terminal_kinds": h.get("terminal_kinds")}, "where": where}, None))
    bad, mo = runmodel.run_cases(tag, "Sched RedisSrv RedisBroker", "redis_obs", cases, shard=60)
    for i in bad:
        res.mismatches.append({"relation": "redis_obs", "coq": cases[i][0][:4000], "impl_obs": cases[i][1][:300], "model_obs": (mo.get(i) or [])[:300]})
    res.model_cases += len(cases)
    res.traces_validated += len(cases) - len(bad)
    res.relations.append("redis_obs: the whole command/reply stream of the Redis client over the fake server, the message every take "
                         "returns, the final server state")


async def concurrent_takes(rng, n_msgs: int, n_cons: int, max_unacked) -> dict:
    """n_cons consumers with running background tasks on one queue: who is handed which message"""
    import random as _random
    _random.seed(rng.getrandbits(32))          # the client draws its priority order from the global generator
    w = redisrun.RedisWorld([1])
    from ..world import key
    from ..pyparams import mk_params
    from ..clock import CLOCK
    for c in range(1, n_cons + 1):
        await w.add_consumer(c, 1, 0, None, max_unacked)
    for i in range(1, n_msgs + 1):
        await w.mb.enqueue(key(f"m{i}", "t1", "q1", 5), f"p{i}", mk_params(ts=CLOCK.now_us()))
        if rng.random() < 0.3:
            await asyncio.sleep(rng.choice([0.0, 0.05, 0.1]))
    await w.settle(0.45)
    handed: dict = {}
    for _ in range(n_msgs * 2):
        progressed = False
        for c, cons in w.consumers.items():
            try:
                # a fetch that draws the priority order [HIGH, LOW, MEDIUM] sleeps POLLING_WAIT twice before it looks
                # at the list these messages are in: 0.2 s + one idle sleep of the background task
                got = await asyncio.wait_for(cons.consume(), 0.5)
            except asyncio.TimeoutError:
                continue
            handed.setdefault(redisrun.num(got[0].id_), []).append(c)
            progressed = True
        if not progressed:
            break
    for cons in w.consumers.values():
        if cons.consume_task is not None:
            cons.consume_task.cancel()
    await w.settle()
    return {"handed": handed, "n": n_msgs, "consumers": n_cons, "log_len": len(w.srv.log)}


# ---------------- shutdown of a Redis consumer at every loop iteration of its background task ----------------
def finish_cuts(ctx, res) -> None:
    """C03 on the Redis client: `finish()` is called k loop iterations after the consumer was started, for every k of the
    window in which its background task takes messages: afterwards every message must be in exactly one place and none
    may stay marked as being processed (the consumer has handed nothing out: everything it took goes back)."""
    import repid.connections.redis.utils as ru
    from ..world import key
    from ..pyparams import mk_params
    from ..clock import CLOCK
    scenarios = [
        {"name": "plain", "n": 3, "expired": (), "max": 5},
        {"name": "expired_first", "n": 4, "expired": (1, 3), "max": 5},
        {"name": "buffer_of_one", "n": 3, "expired": (), "max": 1},
        {"name": "buffer_of_one_expired", "n": 4, "expired": (2,), "max": 1},
        {"name": "slow_wire", "n": 3, "expired": (), "max": 5, "latency": 4},
        {"name": "slow_wire_expired", "n": 3, "expired": (1,), "max": 2, "latency": 3},
        # the other priorities are polled one POLLING_WAIT after the other: the cut points follow the instant of each poll
        {"name": "priorities@0.1", "n": 3, "expired": (), "max": 5, "prios": {1: 9, 2: 0, 3: 5}, "at": 0.1},
        {"name": "priorities@0.3", "n": 3, "expired": (), "max": 5, "prios": {1: 9, 2: 0, 3: 5}, "at": 0.3},
        {"name": "priorities@0.2", "n": 3, "expired": (), "max": 5, "prios": {1: 0, 2: 9}, "at": 0.2},
        {"name": "priorities_slow_wire@0.1", "n": 2, "expired": (), "max": 1, "latency": 2, "prios": {1: 0, 2: 9}, "at": 0.1},
    ]
    ks = range(0, ctx.scale(70, 160))
    ks_slow = range(0, ctx.scale(150, 320))
    orig = ru.random.random
    ru.random.random = lambda: 0.8          # MEDIUM priority first: the list the messages are in
    problems = []

    async def main(loop):
        loop.set_exception_handler(lambda l, c: None)
        for sc in scenarios:
            for k in (range(0, 60) if sc.get("at") else ks_slow if sc.get("latency") else ks):
                w = redisrun.RedisWorld([1])
                w.srv.latency = sc.get("latency", 0)
                now = CLOCK.now_us()
                for i in range(1, sc["n"] + 1):
                    exp = i in sc["expired"]
                    await w.mb.enqueue(key(f"m{i}", "t1", "q1", sc.get("prios", {}).get(i, 5)), f"p{i}",
                                       mk_params(ts=now - (2 * S if exp else 0), ttl=(1000 if exp else None)))
                await w.add_consumer(1, 1, 0, None, sc["max"])
                if sc.get("at"):
                    await asyncio.sleep(sc["at"])
                for _ in range(k):
                    await asyncio.sleep(0)
                await w.consumers[1].finish()
                for _ in range(60 + 30 * sc.get("latency", 0)):
                    await asyncio.sleep(0)
                pl = w.places()
                res.count("redis_finish_cut_runs")
                data = w.hashes()
                bad = {i: [x[0] for x in pl.get(i, [])] for i in range(1, sc["n"] + 1)
                       if len(pl.get(i, [])) != 1 or pl[i][0][0] == "processing"}
                # ... under its own priority, and its data is where the name points (a name without data is dead-lettered by
                # the next consumer that finds it)
                for i in range(1, sc["n"] + 1):
                    want = sc.get("prios", {}).get(i, 5)
                    if i not in bad and (pl[i][0][2] != want or i not in data or data[i]["prio"] != want):
                        bad[i] = [f"{pl[i][0][0]} at priority {pl[i][0][2]}, data at priority {data.get(i, {}).get('prio')}, enqueued with {want}"]
                res.add_case(f"redis_finish_cut:{sc['name']}:{k}:{sorted((i, tuple(x[0] for x in p)) for i, p in pl.items())}",
                             any(p and p[0][0] in ("dead",) for p in pl.values()) or k > 5)
                if bad:
                    problems.append((sc, k, bad))
    try:
        run_virtual(main)
    finally:
        ru.random.random = orig
    if problems:
        sc, k, bad = problems[0]
        stuck = {i: p for i, p in bad.items() if "processing" in p}
        kind = "redis_finish_leaves_message_in_flight" if stuck else "redis_finish_loses_or_duplicates"
        res.failures.append(Failure(kind, f"scenario {sc['name']}: finish() {k} loop iterations after start() leaves {bad} "
                                    f"(every message must be in exactly one place, none marked as processing: the consumer handed nothing out); "
                                    f"{len(problems)} of the cut points fail", {"redis_finish_cut": {"scenario": sc, "k": k}}, None))


def consume_cuts(ctx, res) -> None:
    """consume() of a consumer whose local buffer holds a message that has expired there, cancelled after k loop iterations
    (the runner cancels the loop that awaits consume() when the worker is told to stop): afterwards no message may be marked
    as processing without being in the buffer or in the caller's hands."""
    import repid.connections.redis.utils as ru
    from ..world import key
    from ..pyparams import mk_params
    from ..clock import CLOCK
    orig = ru.random.random
    ru.random.random = lambda: 0.8
    problems = []

    async def main(loop):
        loop.set_exception_handler(lambda l, c: None)
        for k in range(0, ctx.scale(20, 40)):
            w = redisrun.RedisWorld([1])
            now = CLOCK.now_us()
            await w.mb.enqueue(key("m1", "t1", "q1", 5), "p1", mk_params(ts=now, ttl=200_000))
            await w.mb.enqueue(key("m2", "t1", "q1", 5), "p2", mk_params(ts=now))
            await w.add_consumer(1, 1, 0, None, 5)
            await asyncio.sleep(0.5)              # both are in the buffer; m1 has expired there
            t = asyncio.ensure_future(w.consumers[1].consume())
            for _ in range(k):
                await asyncio.sleep(0)
            got = None
            if t.done():
                got = t.result()
            else:
                t.cancel()
                try:
                    await t
                except asyncio.CancelledError:
                    pass
            for _ in range(40):
                await asyncio.sleep(0)
            pl, buf = w.places(), w.buffers()[1]
            held = [redisrun.num(got[0].id_)] if got else []
            res.count("redis_consume_cut_runs")
            res.add_case(f"redis_consume_cut:{k}:{held}:{buf}", True)
            stuck = [i for i, p in pl.items() if [x[0] for x in p] == ["processing"] and i not in buf and i not in held]
            lost = [i for i in (1, 2) if len(pl.get(i, [])) != 1]
            if stuck or lost:
                problems.append((k, stuck, lost, {i: [x[0] for x in p] for i, p in pl.items()}))
            await w.consumers[1].finish()
    try:
        run_virtual(main)
    finally:
        ru.random.random = orig
    if problems:
        k, stuck, lost, pl = problems[0]
        res.failures.append(Failure("redis_consume_cut_leaves_message_in_flight", f"consume() cancelled after {k} loop iterations while it was "
                                    f"dead-lettering a message that expired in the buffer: places {pl}, marked as processing and held by nobody: {stuck}, "
                                    f"not in exactly one place: {lost}", {"redis_consume_cut": {"k": k}}, None))


def consume_expired_run(ctx, res) -> None:
    """consume() of the Redis consumer with SEVERAL consecutive messages that have expired in its local buffer: every one of them
    is dead-lettered, what is handed out is alive (C12; the re-check at hand-out time must be repeated, not done once)."""
    import repid.connections.redis.utils as ru
    from ..world import key
    from ..pyparams import mk_params
    from ..clock import CLOCK
    orig = ru.random.random
    ru.random.random = lambda: 0.8
    problems = []

    async def main(loop):
        loop.set_exception_handler(lambda l, c: None)
        for ttls in ([200_000, 200_000, None, 200_000, None], [200_000, 200_000, 200_000, None], [None, 200_000, 200_000, None, 200_000]):
            w = redisrun.RedisWorld([1])
            now = CLOCK.now_us()
            for i, ttl in enumerate(ttls, start=1):
                await w.mb.enqueue(key(f"m{i}", "t1", "q1", 5), f"p{i}", mk_params(ts=now, ttl=ttl))
            await w.add_consumer(1, 1, 0, None, 8)
            await asyncio.sleep(0.6)
            handed = []
            for _ in range(len(ttls)):
                try:
                    got = await asyncio.wait_for(w.consumers[1].consume(), 0.5)
                    handed.append(redisrun.num(got[0].id_))
                except asyncio.TimeoutError:
                    break
            pl = {i: [x[0] for x in p] for i, p in w.places().items()}
            alive = [i for i, ttl in enumerate(ttls, start=1) if ttl is None]
            res.count("redis_buffered_expiry_runs")
            res.add_case(f"redis_buffered_expiry:{ttls}:{handed}", True)
            if handed != alive or any(pl.get(i) != ["dead"] for i, ttl in enumerate(ttls, start=1) if ttl is not None):
                problems.append((ttls, handed, alive, pl))
            await w.consumers[1].finish()
    try:
        run_virtual(main)
    finally:
        ru.random.random = orig
    if problems:
        ttls, handed, alive, pl = problems[0]
        res.failures.append(Failure("redis_buffered_expired_handed_out", f"messages with ttls {ttls} (us; None = no ttl) prefetched alive, consumed 0.6 s "
                                    f"later: consume() handed out {handed}, alive are {alive}; places {pl}", {"redis_buffered_expiry": {"ttls": ttls}}, None))
