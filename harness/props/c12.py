"""C12 — expired messages are never executed; live ones are never dropped (in-memory broker)."""
from ..common import Ctx, Failure, Result
from .. import coqterm as ct
from .. import memrun, runmodel
from ..clock import CLOCK
from ..pyparams import enc_params, mk_params, params_term
from . import _mem, _redis
from . import _rabbit

S = memrun.S
RULE = ("histories over one queue with normal (plain and topic-filtered), delayed- and dead-category consumers: messages with "
        "time-to-live none / 1 ms..seconds whose expiry is approached by exact clock advances (expiry-1us, =expiry, +1us, far "
        "beyond) before a consume, immediate, delayed (becoming due before or after they expire), retried (requeue keeping the "
        "timestamp) and rescheduled (requeue with a restarted timestamp) messages, retrieval through the dead category, "
        "rejects and finishes; distinct by the printed Coq op list; non-trivial = a message with a time-to-live is polled "
        "(delivered or dead-lettered)")
TRUSTED = ["brokers: in-memory (concurrent histories, cancellation), Redis client over harness/fakeredis.py = coq/RedisSrv.v (sequential histories of one client), RabbitMQ client over harness/fakeamqp.py = coq/AmqpSrv.v (sequential histories, fixed callback schedule); RedisSrv.v and AmqpSrv.v are descriptions of the servers written from their documentation, not compared with real servers (none available)"]
ASSUMPTIONS = ["the clock is non-decreasing", "clients are well-behaved (fresh ids, terminal actions on held messages)"]
WHICH = {"C12"}
TTLS = [1000, 5000, 20_000, S, 10 * S]


def gen(rng, n_ops: int) -> dict:
    queues = [1]
    consumers = {1: (1, 0, None), 2: (1, 0, rng.choice([[1], [1, 2]])), 3: (1, 2, None), 4: (1, 1, None)}
    ops, known, nid = [], {}, 1
    elapsed = 0          # virtual time the generator knows it spent through ticks since the last put (consumes add more)
    for _ in range(n_ops):
        r = rng.random()
        if r < 0.30 or not known:
            t = rng.choice([1, 1, 2, 3])
            sp = {}
            if rng.random() < 0.75:
                sp["ttl"] = rng.choice(TTLS)
                sp["ts"] = -rng.choice([0, 0, 1, 999, 1000, 4999, 5000, 5001, 19_000])
            if rng.random() < 0.3:
                sp["next"] = rng.choice([-1, 500, 2000, 4000, 6000, 25_000])
            ops.append({"op": "put", "id": nid, "queue": 1, "topic": t, "params": sp})
            known[nid] = (1, t)
            nid += 1
            if "ttl" in sp and rng.random() < 0.7:
                # walk the clock to the neighbourhood of the expiry, then poll
                left = sp["ttl"] + sp.get("ts", 0)
                d = left + rng.choice([-1, 0, 1, -1000, 1000, 1, 0, 7 * S]) - rng.choice([0, 0, 500])
                if d > 0:
                    ops.append({"op": "tick", "d": d})
                ops.append({"op": "consume", "c": rng.choice([1, 1, 2]), "timeout": rng.choice([0.0005, 0.0035])})
        elif r < 0.52:
            ops.append({"op": "consume", "c": rng.choice([1, 1, 2, 3, 3, 4]), "timeout": rng.choice([0.0005, 0.0035, 0.0105, 1.1])})
        elif r < 0.58:
            ops.append({"op": "consume_many", "cs": rng.sample([1, 2, 3, 4], 2), "timeout": 0.0035})
        elif r < 0.80:
            ops.append({"op": "terminal"})
        elif r < 0.82:
            ops.append({"op": "finish", "c": rng.choice([1, 2, 3, 4])})
        elif r < 0.86:
            # a consumer is waiting inside consume() when another one is finished a few milliseconds later and returns
            # what it held - possibly expired by then: the waiting consumer's next poll must look at the clock again
            c_ = rng.choice([1, 2])
            ops.append({"op": "consume_with_finish", "c": c_, "f": 3 - c_, "k": rng.choice([0, 1, 2]),
                        "after": rng.choice([0.0015, 0.0035, 0.0065]), "timeout": 0.0105})
        else:
            ops.append({"op": "tick", "d": rng.choice([1, 499, 999, 1000, 1001, 4000, 5000, 20_000, S])})
    return {"queues": queues, "consumers": consumers, "ops": ops, "known": known,
            "terminal_kinds": ["ack", "nack", "reject", "reject", "requeue_retry", "requeue_retry", "requeue_resched", "requeue_resched"]}


def extra(hist: dict, r: dict) -> list:
    """expired messages end in the dead-letter list and stay retrievable there"""
    bad = []
    cspec = hist["consumers"]
    expiry, prev_places, acked = {}, {}, set()
    for n, e in enumerate(r["trace"]):
        places, msgs = e["after"]["places"], e["after"]["msgs"]
        where = {"step": n, "op": {k: v for k, v in e.items() if k not in ("after", "params", "got", "polls")}}
        if e["op"] in ("put", "requeue") and e.get("applied"):
            expiry[e["id"]] = _mem.expiry_of(e["params"])
        if e["op"] == "requeue" and e.get("how") == "requeue_resched":
            # time-to-live counts from the latest scheduling: a rescheduled message starts a new clock
            if ct.us_of_dt(e["params"].timestamp) != e["t"] or e["params"].ttl != e["params_before"].ttl:
                bad.append(("reschedule_keeps_old_clock", f"message {e['id']} rescheduled at {e['t']} carries timestamp "
                            f"{ct.us_of_dt(e['params'].timestamp)}", where))
        if e["op"] == "requeue" and e.get("how") == "requeue_retry":
            if e["params"].timestamp != e["params_before"].timestamp or e["params"].ttl != e["params_before"].ttl:
                bad.append(("retry_restarts_clock", f"retry of message {e['id']} changed its timestamp or ttl", where))
        if e["op"] == "ack" and e.get("applied"):
            acked.add(e["id"])
        if e["op"] in ("consume", "consume_many"):
            t_end = e.get("t_return", e["t"])
            for i, was in prev_places.items():
                if was and was[0][0] in ("simple", "delayed") and not places.get(i) and i not in acked:
                    if expiry.get(i) is not None and expiry[i] < t_end:
                        bad.append(("expired_message_lost", f"message {i} (expired at {expiry[i]}) vanished during a consume instead of being dead-lettered", where))
        if e["op"] == "consume" and cspec[e["c"]][1] == 2 and e["polls"] and not e["delivered"]:
            q = cspec[e["c"]][0]
            if any(pl and pl[0][0] == "dead" and pl[0][1] == q for pl in prev_places.values()):
                bad.append(("dead_not_retrievable", "a dead-category consumer polled a non-empty dead-letter list and received nothing", where))
        prev_places = places
    return bad


def nontrivial(h: dict, r: dict) -> bool:
    ttl_ids = {e["id"] for e in r["trace"] if e["op"] in ("put", "requeue") and e.get("applied") and e["params"].ttl is not None}
    prev = {}
    for e in r["trace"]:
        pl = e["after"]["places"]
        if e["op"] in ("consume", "consume_many"):
            for i in ttl_ids:
                a, b = prev.get(i), pl.get(i)
                if a and b and a[0][0] in ("simple",) and b[0][0] in ("held", "dead"):
                    return True
        prev = pl
    return False


def run(ctx: Ctx) -> Result:
    rng = ctx.rng()
    res = Result(rule=RULE)
    res.relations = ["mem_obs: delivered id per poll, abstract state after every call, full messages at the end"]
    hists = [gen(rng, rng.randint(6, 40)) for _ in range(ctx.scale(600, 10000))]
    outs = _mem.run_histories(ctx, res, "c12", hists, WHICH, rng, nontrivial=nontrivial)
    for h, r in zip(hists, outs):
        seen = set()
        for kind, what, where in extra(h, r):
            if kind not in seen:
                seen.add(kind)
                res.failures.append(Failure(kind, what, {"history": _mem.strip(h), "where": where}, None))
    sched_cases(ctx, res, rng)
    _redis.run_seq(ctx, res, "c12r", {"C12"}, "ttl", 150, 3000, rng)
    _rabbit.run_seq(ctx, res, "c12q", {"C12"}, "ttl", 120, 2500, rng)
    _redis.consume_expired_run(ctx, res)
    return res


def sched_cases(ctx: Ctx, res: Result, rng) -> None:
    """The real _prepare_reschedule / _prepare_retry / is_overdue against Sched.v, for messages with a time-to-live,
    recurring or not, at instants on both sides of the expiry."""
    from datetime import timedelta
    intern = ct.Interner()
    cases = []
    for _ in range(ctx.scale(1500, 20000)):
        ts = 1_700_000_000 * S + rng.randint(0, 10 * S)
        ttl = rng.choice([None, 1000, S, 10 * S, rng.randint(1, 100 * S)])
        by = rng.choice([None, None, S, 10 * S])
        until = rng.choice([None, None, ts - S, ts + 5 * S])
        nxt = rng.choice([None, None, ts + 2 * S])
        p = mk_params(until=until, by=by, nxt=nxt, ts=ts, tried=rng.randint(0, 3), max_amount=rng.randint(0, 3), ttl=ttl)
        now = ts + (ttl or S) + rng.choice([-1, 0, 1, -S, S, 3 * S, 100 * S])
        CLOCK.set(now)
        pt = params_term(p, intern)
        q = p._prepare_reschedule()
        cases.append((f"(CResched {pt} {ct.Z(now)})", enc_params(q, intern)))
        res.add_case(cases[-1][0], ttl is not None)
        if ct.us_of_dt(q.timestamp) != now or q.ttl != p.ttl:
            res.failures.append(Failure("reschedule_keeps_old_clock", f"_prepare_reschedule at {now}: timestamp {ct.us_of_dt(q.timestamp)}",
                                        {"params": str(p), "now": now}, None))
        else:
            later = now + (ttl or 0)
            CLOCK.set(later)
            if q.is_overdue:
                res.failures.append(Failure("rescheduled_message_expires_early", "overdue within ttl of the reschedule", {"params": str(p), "now": now}, None))
            CLOCK.set(now)
        back = rng.choice([0, 1000, 5 * S])
        r = p._prepare_retry(timedelta(microseconds=back))
        cases.append((f"(CRetry {pt} {ct.Z(now)} {ct.Z(back)})", enc_params(r, intern)))
        if r.timestamp != p.timestamp or r.ttl != p.ttl:
            res.failures.append(Failure("retry_restarts_clock", "_prepare_retry changed timestamp/ttl", {"params": str(p)}, None))
        got = p.is_overdue
        cases.append((f"(COverdue {ct.Z(ts)} {ct.opt(ttl)} {ct.Z(now)})", [1 if got else 0]))
        if got != (ttl is not None and now > ts + ttl):
            res.failures.append(Failure("overdue_rule_wrong", f"is_overdue={got} at now-ts-ttl={now - ts - (ttl or 0)}", {"params": str(p), "now": now}, None))
        res.count("sched_cases", 3)
    bad, mo = runmodel.run_cases("c12s", "Sched", "sched_obs", cases, shard=500)
    for i in bad:
        res.mismatches.append({"relation": "sched_obs", "coq": cases[i][0], "impl_obs": cases[i][1], "model_obs": mo.get(i)})
    res.model_cases += len(cases)
    res.traces_validated += len(cases) - len(bad)
    res.relations.append("sched_obs: _prepare_reschedule / _prepare_retry / is_overdue")


def replay(ctx: Ctx, rp: dict) -> dict:
    case = rp.get("case") or {}
    if "history" not in case and "first_diverging_case" not in rp:
        res = Result()
        sched_cases(ctx, res, ctx.rng())
        return {"oracle": [(f.kind, f.what) for f in res.failures][:10], "fails": bool(res.failures)}
    return _mem.replay_history(ctx, rp, WHICH, extra=extra)
