"""C03 on the Redis and RabbitMQ clients: a real Worker over the fake server, told to stop at every event-loop iteration.

Model-free (the ownership model Shutdown.v is tied to the in-memory broker): after run() has returned and the give-backs have
settled, every message must be in exactly one place on the server and none may be in flight (Redis: marked as processing;
RabbitMQ: unacknowledged) - the worker holds nothing any more.

The hand-over of a message from consume() to the queue loop is watched separately (`not_received` in the replay: the last
message a consumer's inner consume() returned while its loop has received fewer messages than were returned): the window in
which a stop lands between the two - consume() runs in a child task of the middleware wrapper, which emits `after_consume`
before returning - was a recorded finding (`stop_inside_consume_tail`) until the repair aeff44b; two scenarios subscribe
suspending `before_consume` / `after_consume` functions so that the window is several iterations wide."""
import asyncio
import signal

from .. import rabbitrun, redisrun
from ..common import Failure
from ..vloop import run_virtual

S = 1_000_000
# (durations by job, graceful time, number of queues, messages_limit, tasks_limit, number of jobs[, suspending consume-subscribers
#  [, actors that dispose of their message themselves]])
SCENARIOS = [([0.0, 0.05, 0.3], 0.01, 1, None, 2, 4), ([0.0], 0.0, 1, None, 2, 4), ([0.2, 0.0, 0.05], 0.1, 1, None, 2, 4),
             ([0.0, 0.05, 0.3], 0.01, 2, None, 3, 8), ([0.05], 0.0, 2, 1, 2, 4), ([0.0, 0.05, 0.3], 0.01, 2, 2, 3, 6), ([0.05], 0.0, 2, 2, 3, 6),
             ([0.0, 0.05, 0.3], 0.01, 1, None, 2, 4, True), ([0.05], 0.0, 2, 2, 3, 6, True),
             ([0.0], 0.0, 1, None, 2, 4, False, True), ([0.05, 0.0], 0.0, 1, None, 3, 6, False, True),
             # (Redis only) every command takes 3 loop iterations each way on the wire
             ([0.0, 0.05], 0.0, 1, None, 2, 4, False, False, 3), ([0.0, 0.05, 0.3], 0.01, 1, None, 2, 4, False, True, 3)]


class _LogDict(dict):
    """The actors mapping handed to a queue loop: its first action on a received message is the look-up of the actor."""

    def __init__(self, d, note):
        super().__init__(d)
        self.note = note

    def __getitem__(self, k):
        self.note()
        return super().__getitem__(k)


async def one_run(loop, which, k, durs, graceful, n_queues=1, limit=None, tasks_limit=2, n_jobs=4, subscribers=False, eager=False, latency=0):
    from repid import BasicConverter, Connection, InMemoryBucketBroker, Job, Queue, Router, Worker
    from repid._runner import _Runner
    if which == "redis":
        w = redisrun.RedisWorld(list(range(1, n_queues + 1)))
    else:
        w = rabbitrun.RabbitWorld()
        from ..fakeamqp import ISSUER
        ISSUER.set(("api",))
    mb = w.mb
    conn = Connection(mb, InMemoryBucketBroker(), InMemoryBucketBroker(use_result_bucket=True))
    if subscribers:
        # subscribers of the consume signals which take some loop iterations: the message is on its way through them
        async def before_consume() -> None:
            await asyncio.sleep(0)

        async def after_consume(result) -> None:
            for _ in range(3):
                await asyncio.sleep(0)
        conn.middleware.add_subscriber(before_consume)
        conn.middleware.add_subscriber(after_consume)
    ran: list = []
    handed: dict = {}            # message -> loop iteration at which the INNER consume() returned it
    returned: dict = {}          # consumer -> [number of messages its inner consume() returned, the last of them]
    received: dict = {}          # consumer -> number of messages its queue loop received
    it0 = loop.iteration
    orig_rc = _Runner._run_consumer

    async def rc(self_, consumer, actors):
        cid = id(consumer)
        return await orig_rc(self_, consumer, _LogDict(actors, lambda: received.__setitem__(cid, received.get(cid, 0) + 1)))

    orig_get_consumer = mb.get_consumer

    def get_consumer(*a, **kw):
        cons = orig_get_consumer(*a, **kw)
        wrapper = cons.consume
        inner = getattr(wrapper, "fn", None)
        if inner is not None:
            async def logged(*aa, **kk):
                msg = await inner(*aa, **kk)
                handed[int(msg[0].id_[1:])] = loop.iteration - it0
                r = returned.setdefault(id(cons), [0, None])
                r[0] += 1
                r[1] = int(msg[0].id_[1:])
                return msg
            wrapper.fn = logged
        return cons
    mb.get_consumer = get_consumer

    router = Router()

    from repid import MessageDependency

    async def act_eager(jid: int, m: MessageDependency) -> int:
        # every second job disposes of its message itself (eager response), half of them after some work
        ran.append(jid)
        d = durs[jid % len(durs)]
        if d and jid % 4 == 0:
            await asyncio.sleep(d)
        if jid % 2 == 0:
            await m.ack()
        if jid % 3 == 0:
            await m.nack()
        return jid

    async def act(jid: int) -> int:
        ran.append(jid)
        d = durs[jid % len(durs)]
        if d:
            await asyncio.sleep(d)
        if jid % 3 == 0:
            raise ValueError("fails")
        return jid
    for qn in range(1, n_queues + 1):
        router.actor(act_eager if eager else act, name=f"a{qn}", queue=f"q{qn}", converter=BasicConverter)
        await Queue(f"q{qn}", _connection=conn).declare()
    for i in range(1, n_jobs + 1):
        qn = 1 + (i % n_queues)
        await Job(f"a{qn}", queue=Queue(f"q{qn}", _connection=conn), args={"jid": i}, retries=1, id_=f"m{i}", _connection=conn).enqueue()
    kw = {} if limit is None else {"messages_limit": limit}
    worker = Worker(routers=[router], _connection=conn, handle_signals=[signal.SIGINT], graceful_shutdown_time=graceful,
                    tasks_limit=tasks_limit, **kw)
    if latency and which == "redis":
        w.srv.latency = latency
    fired: dict = {}
    loop.signal_handlers.clear()         # (a run that was never told to stop is cut by the guard below and leaves its handler behind)

    t0 = loop.time()

    def hook(lp):
        # (an idle worker makes no loop iterations: the k-th one would only come with the 30 s guard below - not a stop point)
        if "it" not in fired and lp.iteration - it0 >= k and lp.time() - t0 < 20:
            h = lp.signal_handlers.get(int(signal.SIGINT))
            if h is not None:
                fired["it"] = lp.iteration - it0
                h()
    loop.step_hook = hook
    err = None
    _Runner._run_consumer = rc
    try:
        await asyncio.wait_for(worker.run(), 30)
    except asyncio.TimeoutError:
        err = "timeout"
    except Exception as e:  # noqa: BLE001
        err = repr(e)
    finally:
        _Runner._run_consumer = orig_rc
        loop.step_hook = None
    await asyncio.sleep(0.3)
    for _ in range(80 + 40 * latency):
        await asyncio.sleep(0)
    if which == "redis":
        pl = {i: [x[0] for x in p] for i, p in w.places().items()}
        inflight = [i for i, p in pl.items() if "processing" in p]
        # a name in a queue whose data is gone (the message was acknowledged AND given back), data left with no name anywhere
        data = w.hashes()
        ghosts = sorted([i for i in pl if i not in data] + [-i for i in data if i not in pl])
    else:
        st = rabbitrun.w_state(w)
        pl = {i: [x[0] for x in p] for i, p in st["places"].items()}
        inflight = [i for i, p in pl.items() if "unacked" in p]
    if which != "redis":
        ghosts = []
    dup = [i for i, p in pl.items() if len(p) != 1]
    not_received = sorted(r[1] for cid, r in returned.items() if r[0] > received.get(cid, 0))
    return {"k": k, "durs": durs, "graceful": graceful, "queues": n_queues, "messages_limit": limit, "tasks_limit": tasks_limit, "jobs": n_jobs,
            "subscribers": subscribers, "eager": eager, "latency": latency, "err": err, "fired": fired.get("it"), "inflight": inflight, "dup": dup, "ghosts": ghosts,
            "places": pl, "ran": list(ran), "handed": dict(handed), "not_received": not_received}


def worker_stop_cuts(ctx, res) -> None:
    import repid.connections.redis.utils as ru
    orig = ru.random.random
    ru.random.random = lambda: 0.8
    outs = []

    async def main(loop):
        loop.set_exception_handler(lambda l, c: None)
        # the window in which the worker consumes starts later on RabbitMQ (its start-up takes some ninety iterations)
        for which, k0 in (("redis", 0), ("rabbit", 70)):
            for durs, graceful, nq, limit, tl, nj, *subs in SCENARIOS:
                lat = subs[2] if len(subs) > 2 else 0
                if lat and which != "redis":
                    continue
                ks = range(0, ctx.scale(420, 700), 3) if lat else range(k0, k0 + ctx.scale(90, 180) + (40 if subs and subs[0] else 0), 1)
                for k in ks:
                    loop.max_iterations = loop.iteration + 400_000
                    o = await one_run(loop, which, k, durs, graceful, nq, limit, tl, nj, bool(subs and subs[0]), len(subs) > 1 and subs[1], lat)
                    o["broker"] = which
                    outs.append(o)
    try:
        run_virtual(main)
    finally:
        ru.random.random = orig
    for o in outs:
        if o["fired"] is None:
            res.count("worker_stop_runs_where_the_stop_came_after_the_end")      # the worker was idle: the hook never fired
            continue
        res.count("worker_stop_cut_runs")
        res.add_case(f"wstop:{o['broker']}:{o['durs']}:{o['graceful']}:{o['queues']}:{o['messages_limit']}:{o['subscribers']}:{o['eager']}:{o['latency']}:{o['k']}:{sorted(o['places'].items())}", bool(o["ran"]))
        if o["err"]:
            res.failures.append(Failure("worker_on_broker_did_not_stop", f"{o['broker']}: run() did not return after the stop at iteration {o['k']}: {o['err']}",
                                        {"worker_stop_cut": {k: v for k, v in o.items() if k != "places"}}, None))
            continue
        if o["ghosts"]:
            res.failures.append(Failure("worker_stop_completed_and_returned", f"{o['broker']}: stop at loop iteration {o['fired']} (graceful {o['graceful']} s): after "
                                        f"run() returned, message(s) {[g for g in o['ghosts'] if g > 0]} are in a queue with their data deleted (acknowledged AND given "
                                        f"back), data without a place: {[-g for g in o['ghosts'] if g < 0]}; places {o['places']} (executed {o['ran']})",
                                        {"worker_stop_cut": o}, None))
            continue
        if not o["inflight"] and not o["dup"]:
            continue
        res.failures.append(Failure("worker_stop_leaves_message_in_flight" if o["inflight"] else "worker_stop_duplicates",
                                        f"{o['broker']}: stop at loop iteration {o['fired']} (graceful {o['graceful']} s): after run() returned, in flight "
                                        f"{o['inflight']}, not in exactly one place {o['dup']}: {o['places']} (executed {o['ran']})",
                                        {"worker_stop_cut": o}, None))
