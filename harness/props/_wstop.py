"""C03 on the Redis and RabbitMQ clients: a real Worker over the fake server, told to stop at every event-loop iteration.

Model-free (the ownership model Shutdown.v is tied to the in-memory broker): after run() has returned and the give-backs have
settled, every message must be in exactly one place on the server and none may be in flight (Redis: marked as processing;
RabbitMQ: unacknowledged) - the worker holds nothing any more.

One window is a recorded finding (`stop_inside_consume_tail`): consume() is wrapped by the middleware wrapper, which runs it
in a child task and emits `after_consume` before returning; a stop that cancels the queue loop in exactly that tail - the
child has taken the message out of the consumer's buffer, the loop has not received it - leaves the message in nobody's
hands.  It is recognised by its signature: the message was never executed and the inner consume() returned it at most two
loop iterations before the stop request or at most five after it (while the cancellation of the loop was on its way)."""
import asyncio
import signal

from .. import rabbitrun, redisrun
from ..common import Failure
from ..vloop import run_virtual

S = 1_000_000
SCENARIOS = [([0.0, 0.05, 0.3], 0.01), ([0.0], 0.0), ([0.2, 0.0, 0.05], 0.1)]


async def one_run(loop, which, k, durs, graceful):
    from repid import BasicConverter, Connection, InMemoryBucketBroker, Job, Queue, Router, Worker
    if which == "redis":
        w = redisrun.RedisWorld([1])
    else:
        w = rabbitrun.RabbitWorld()
        from ..fakeamqp import ISSUER
        ISSUER.set(("api",))
    mb = w.mb
    conn = Connection(mb, InMemoryBucketBroker(), InMemoryBucketBroker(use_result_bucket=True))
    ran: list = []
    handed: dict = {}            # message -> loop iteration at which the INNER consume() returned it
    it0 = loop.iteration

    orig_get_consumer = mb.get_consumer

    def get_consumer(*a, **kw):
        cons = orig_get_consumer(*a, **kw)
        wrapper = cons.consume
        inner = getattr(wrapper, "fn", None)
        if inner is not None:
            async def logged(*aa, **kk):
                msg = await inner(*aa, **kk)
                handed[int(msg[0].id_[1:])] = loop.iteration - it0
                return msg
            wrapper.fn = logged
        return cons
    mb.get_consumer = get_consumer

    router = Router()

    async def act(jid: int) -> int:
        ran.append(jid)
        d = durs[jid % len(durs)]
        if d:
            await asyncio.sleep(d)
        if jid % 3 == 0:
            raise ValueError("fails")
        return jid
    router.actor(act, name="a1", queue="q1", converter=BasicConverter)
    q = Queue("q1", _connection=conn)
    await q.declare()
    for i in range(1, 5):
        await Job("a1", queue=q, args={"jid": i}, retries=1, id_=f"m{i}", _connection=conn).enqueue()
    worker = Worker(routers=[router], _connection=conn, handle_signals=[signal.SIGINT], graceful_shutdown_time=graceful, tasks_limit=2)
    fired: dict = {}

    def hook(lp):
        if "it" not in fired and lp.iteration - it0 >= k:
            h = lp.signal_handlers.get(int(signal.SIGINT))
            if h is not None:
                fired["it"] = lp.iteration - it0
                h()
    loop.step_hook = hook
    err = None
    try:
        await asyncio.wait_for(worker.run(), 30)
    except asyncio.TimeoutError:
        err = "timeout"
    except Exception as e:  # noqa: BLE001
        err = repr(e)
    loop.step_hook = None
    await asyncio.sleep(0.3)
    for _ in range(80):
        await asyncio.sleep(0)
    if which == "redis":
        pl = {i: [x[0] for x in p] for i, p in w.places().items()}
        inflight = [i for i, p in pl.items() if "processing" in p]
    else:
        st = rabbitrun.w_state(w)
        pl = {i: [x[0] for x in p] for i, p in st["places"].items()}
        inflight = [i for i, p in pl.items() if "unacked" in p]
    dup = [i for i, p in pl.items() if len(p) != 1]
    return {"k": k, "durs": durs, "graceful": graceful, "err": err, "fired": fired.get("it"), "inflight": inflight, "dup": dup,
            "places": pl, "ran": list(ran), "handed": dict(handed)}


def worker_stop_cuts(ctx, res) -> None:
    import repid.connections.redis.utils as ru
    orig = ru.random.random
    ru.random.random = lambda: 0.8
    outs = []

    async def main(loop):
        loop.set_exception_handler(lambda l, c: None)
        for which in ("redis", "rabbit"):
            for durs, graceful in SCENARIOS:
                for k in range(0, ctx.scale(90, 160), 1):
                    loop.max_iterations = loop.iteration + 400_000
                    o = await one_run(loop, which, k, durs, graceful)
                    o["broker"] = which
                    outs.append(o)
    try:
        run_virtual(main)
    finally:
        ru.random.random = orig
    for o in outs:
        if o["fired"] is None:
            res.count("worker_stop_runs_where_the_stop_came_after_the_end")      # the worker was idle: the hook never fired
            continue
        res.count("worker_stop_cut_runs")
        res.add_case(f"wstop:{o['broker']}:{o['durs']}:{o['graceful']}:{o['k']}:{sorted(o['places'].items())}", bool(o["ran"]))
        if o["err"]:
            res.failures.append(Failure("worker_on_broker_did_not_stop", f"{o['broker']}: run() did not return after the stop at iteration {o['k']}: {o['err']}",
                                        {"worker_stop_cut": {k: v for k, v in o.items() if k != "places"}}, None))
            continue
        if not o["inflight"] and not o["dup"]:
            continue
        tail = [m for m in o["inflight"] if m not in o["ran"] and m in o["handed"] and -5 <= o["fired"] - o["handed"][m] <= 2]
        if o["inflight"] and tail == o["inflight"] and not o["dup"]:
            res.failures.append(Failure("stop_inside_consume_tail", f"{o['broker']}: stop at loop iteration {o['fired']}, the inner consume() had returned "
                                        f"message {tail} at iteration {[o['handed'][m] for m in tail]} and the queue loop had not received it yet: it stays in "
                                        f"flight, held by nobody ({o['places']})", {"worker_stop_cut": o}, None))
        else:
            res.failures.append(Failure("worker_stop_leaves_message_in_flight" if o["inflight"] else "worker_stop_duplicates",
                                        f"{o['broker']}: stop at loop iteration {o['fired']} (graceful {o['graceful']} s): after run() returned, in flight "
                                        f"{o['inflight']}, not in exactly one place {o['dup']}: {o['places']} (executed {o['ran']})",
                                        {"worker_stop_cut": o}, None))
