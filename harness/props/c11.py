"""C11 — a job reaches exactly the actor it names, only through that actor's queue."""
from __future__ import annotations

import asyncio
import signal

from .. import coqterm as ct
from .. import memrun, runmodel
from ..common import Ctx, Failure, Result
from ..vloop import run_virtual
from ..world import MemMessage, Router, World, key
from ..pyparams import mk_params
from ..clock import CLOCK
from . import _mem, _rabbit

RULE = ("(a) router worlds: 2-4 routers built by 3-14 declarations (names and queues drawn from small pools so that overrides, "
        "overrides that move a name to another queue, and shared queues are frequent) and inclusions, a worker made from 1-3 of "
        "them, jobs (name, queue) matching or not; the real Router/Worker objects' actors and topics_by_queue are compared with "
        "the model, and for ~1/3 of the worlds a real Worker is run in virtual time on an in-memory broker holding one message "
        "per job, interleaved in shared queues, (sometimes two workers with different routers at once): which function ran for "
        "which job, and place/payload/parameters of every non-executed message; (b) in-memory broker histories with foreign "
        "topics in shared queues (C11 oracles of the shared history runner). Distinct by the printed Coq case; non-trivial = the "
        "world contains an override or a job whose queue differs from its actor's queue")
TRUSTED = ["worker dispatch runs on the in-memory broker; the RabbitMQ reject+requeue filter is exercised at the broker API over harness/fakeamqp.py = coq/AmqpSrv.v (written from the documentation, not compared with a real server)",
           "actors use BasicConverter and take the job number as their only argument"]
ASSUMPTIONS = ["an expired foreign message may be dead-lettered by any consumer of its queue (C12), not counted here"]
WHICH = {"C11"}


# ---------------------------------------------------------------- generation
def gen_world(rng) -> dict:
    n = rng.randint(2, 4)
    names = list(range(1, rng.randint(2, 5) + 1))
    queues = list(range(1, rng.randint(1, 3) + 1))
    ops, fn = [], 0
    for _ in range(rng.randint(3, 14)):
        if rng.random() < 0.78:
            fn += 1
            ops.append(("reg", rng.randrange(n), rng.choice(names), rng.choice(queues), fn))
        else:
            d, s = rng.randrange(n), rng.randrange(n)
            if d != s:
                ops.append(("inc", d, s))
    ws = rng.sample(range(n), rng.randint(1, min(3, n)))
    jobs = []
    for _ in range(rng.randint(2, 12)):
        jobs.append((rng.choice(names + [9]), rng.choice(queues + ([4] if rng.random() < 0.2 else []))))
    world = {"n": n, "ops": ops, "ws": ws, "jobs": jobs}
    if rng.random() < 0.3 and n >= 2:
        world["ws2"] = rng.sample(range(n), 1)
    return world


def world_term(w: dict, ws_key="ws") -> str:
    ops = []
    for op in w["ops"]:
        if op[0] == "reg":
            _, d, nm, q, f = op
            ops.append(f"(Reg {d}%nat (mkA {nm} {q} {f}))")
        else:
            ops.append(f"(Inc {op[1]}%nat {op[2]}%nat)")
    return (f"({w['n']}%nat, {ct.lst(ops)}, {ct.lst(f'{k}%nat' for k in w[ws_key])}, "
            f"{ct.lst(f'({t}, {q})' for t, q in w['jobs'])})")


# ---------------------------------------------------------------- running the real objects
def build_routers(w: dict, log: list):
    routers = [Router() for _ in range(w["n"])]
    from repid import BasicConverter

    def make(f):
        async def act(jid: int) -> None:
            log.append((f, jid, CLOCK.now_us()))
            await asyncio.sleep(0.002)
        act.__name__ = f"fn{f}"
        act.verif_fn = f
        return act

    fns = {}
    for op in w["ops"]:
        if op[0] == "reg":
            _, d, nm, q, f = op
            fns[f] = make(f)
            routers[d].actor(fns[f], name=f"a{nm}", queue=f"q{q}", converter=BasicConverter)
        else:
            routers[op[1]].include_router(routers[op[2]])
    return routers


def enc_router(r) -> list[int]:
    rows = sorted([int(a.name[1:]), int(a.queue[1:]), a.fn.verif_fn] for a in r.actors.values())
    pairs = sorted([int(q[1:]), int(n[1:])] for q, ts in r.topics_by_queue.items() for n in ts)
    keys = sorted(int(q[1:]) for q in r.topics_by_queue)
    out = [len(rows)] + [x for row in rows for x in row]
    out += [len(pairs)] + [x for p in pairs for x in p]
    out += [len(keys)] + keys
    return out


def expected(w: dict, ws_key="ws") -> dict:
    """Model-free oracle: the last registration of each name reaching the worker, replayed with plain dicts."""
    regs = [dict() for _ in range(w["n"])]
    for op in w["ops"]:
        if op[0] == "reg":
            _, d, nm, q, f = op
            regs[d][nm] = (q, f)
        else:
            regs[op[1]].update(regs[op[2]])
    final = {}
    for k in w[ws_key]:
        final.update(regs[k])
    return final


def lockstep(w: dict, q: int, t: int, exp: dict, exp2: dict) -> bool:
    """Signature of a defect repaired by 4c9afb3 (listed under `fixed`, so it is a VIOLATION if it ever returns): two workers serve queue q with different topic filters and the unexecuted job's
    topic is wanted by exactly one of them.  The two consumers poll in lock-step, each looking at the head of the waiting list
    only; the message keeps arriving at the head when it is the other consumer's turn (which rotates it to the back)."""
    f1 = {n for n, (qq, _) in exp.items() if qq == q}
    f2 = {n for n, (qq, _) in exp2.items() if qq == q}
    return bool(f1) and bool(f2) and ((t in f1) != (t in f2))


async def run_world(w: dict, loop, dispatch: bool) -> dict:
    log: list = []
    world = World(results=False, args=False)
    routers = build_routers(w, log)
    worker = world.worker([routers[k] for k in w["ws"]], handle_signals=[signal.SIGINT], graceful_shutdown_time=1.0, tasks_limit=3)
    obs = []
    for r in routers:
        obs += enc_router(r)
    obs += [-5] + enc_router(worker) + [-6]
    out = {"obs_static": obs, "log": log, "failures": [], "world": world}
    exp = expected(w)
    # static oracle on the real objects
    for nm, (q, f) in exp.items():
        a = worker.actors.get(f"a{nm}")
        if a is None or int(a.queue[1:]) != q or a.fn.verif_fn != f:
            out["failures"].append(("include_not_last_wins", f"name a{nm}: worker has {a and (a.queue, a.fn.verif_fn)}, last registration is {(q, f)}"))
    if set(worker.actors) != {f"a{nm}" for nm in exp}:
        out["failures"].append(("include_not_union", f"worker actors {sorted(worker.actors)} vs union {sorted(exp)}"))
    if not dispatch:
        out["ran"] = None
        return out
    workers = [worker]
    exp2 = None
    if "ws2" in w:
        workers.append(world.worker([routers[k] for k in w["ws2"]], handle_signals=[signal.SIGTERM], graceful_shutdown_time=1.0, tasks_limit=2))
        exp2 = expected(w, "ws2")
    # one message per job, straight into the broker (queues declared for every queue mentioned)
    qs = sorted({q for _, q in w["jobs"]} | {op[3] for op in w["ops"] if op[0] == "reg"})
    await world.declare(*[f"q{q}" for q in qs])
    now = CLOCK.now_us()
    before = {}
    for j, (t, q) in enumerate(w["jobs"], start=1):
        p = mk_params(ts=now)
        m = MemMessage(key(f"m{j}", f"a{t}", f"q{q}"), '{"jid": %d}' % j, p)
        world.mb.queues[f"q{q}"].simple.put_nowait(m)
        before[j] = m
    loop.max_iterations = loop.iteration + 600_000
    tasks = [asyncio.ensure_future(wk.run()) for wk in workers]
    await asyncio.sleep(0.25)
    errors = []
    for wk, t in zip(workers, tasks):
        if t.done():
            if t.exception() is not None:
                errors.append(repr(t.exception()))
    for sig in (signal.SIGINT, signal.SIGTERM):
        if int(sig) in loop.signal_handlers:
            loop.signal_handlers[int(sig)]()
    done, pending = await asyncio.wait(tasks, timeout=0.2)
    for t in pending:
        t.cancel()
    for t in tasks:
        try:
            await t
        except asyncio.CancelledError:
            pass
        except Exception as e:  # noqa: BLE001
            errors.append(repr(e))
    ran: dict = {}
    for f, jid, t in log:
        ran.setdefault(jid, []).append(f)
    out["ran"] = ran
    out["errors"] = errors
    # dynamic oracle
    for j, (t, q) in enumerate(w["jobs"], start=1):
        want = []
        for e in [exp] + ([exp2] if exp2 is not None else []):
            if t in e and e[t][0] == q:
                want.append(e[t][1])
        got = ran.get(j, [])
        if not want:
            if got:
                out["failures"].append(("foreign_job_executed", f"job {j} (a{t}, q{q}) was executed by function(s) {got} although no served actor of that name is registered for q{q}"))
            else:
                pl = world.place_of(f"q{q}", f"m{j}")
                snap = world.snapshot(f"q{q}")
                same = [m for m in snap["simple"] if m is before[j] or m == before[j]]
                if pl != ["simple"] or not same:
                    out["failures"].append(("foreign_message_disturbed", f"job {j} (a{t}, q{q}) not served by the worker ended in {pl}, or its payload/parameters changed"))
        else:
            if len(workers) == 1 or len(want) == 1:
                if got != want[:1]:
                    kind = "job_not_executed" if not got else "wrong_actor_executed"
                    if not got and exp2 is not None and lockstep(w, q, t, exp, exp2):
                        kind = "lockstep_two_consumers_one_queue"
                    out["failures"].append((kind, f"job {j} (a{t}, q{q}): executed by {got}, expected exactly {want[:1]}"))
            else:
                if len(got) != 1 or got[0] not in want:
                    out["failures"].append(("wrong_actor_executed", f"job {j} (a{t}, q{q}): executed by {got}, expected one of {want}"))
    if errors:
        out["failures"].append(("worker_crashed", str(errors)[:300]))
    return out


# ---------------------------------------------------------------- shared-queue broker histories (foreign topics)
def gen_hist(rng, n_ops: int) -> dict:
    queues = [1]
    consumers = {1: (1, 0, [1]), 2: (1, 0, [2, 3]), 3: (1, 0, rng.choice([[1], [4], None]))}
    ops, known, nid = [], {}, 1
    for _ in range(n_ops):
        r = rng.random()
        if r < 0.35 or not known:
            t = rng.choice([1, 2, 3, 4, 5])
            sp = {}
            if rng.random() < 0.15:
                sp["ttl"] = rng.choice([3000, 10 * memrun.S])
            if rng.random() < 0.3:
                sp["next"] = rng.choice([-1, 500, 1500, 4000, 30_000])      # foreign and own messages in the delayed store
            ops.append({"op": "put", "id": nid, "queue": 1, "topic": t, "params": sp})
            known[nid] = (1, t)
            nid += 1
        elif r < 0.70:
            ops.append({"op": "consume", "c": rng.choice([1, 2, 3]), "timeout": rng.choice([0.0005, 0.0035, 0.0105])})
        elif r < 0.78:
            ops.append({"op": "consume_many", "cs": rng.sample([1, 2, 3], 2), "timeout": 0.0035})
        elif r < 0.92:
            ops.append({"op": "terminal"})
        else:
            ops.append({"op": "tick", "d": rng.choice([500, 1000, 3000, 30_000])})
    return {"queues": queues, "consumers": consumers, "ops": ops, "known": known,
            "terminal_kinds": ["ack", "ack", "reject", "nack", "requeue"]}


def run(ctx: Ctx) -> Result:
    rng = ctx.rng()
    res = Result(rule=RULE)
    res.relations = ["router_obs: actors / topics_by_queue / keys of every router and of the worker, function run per job",
                     "mem_obs (shared-queue histories with foreign topics)"]
    worlds = [gen_world(rng) for _ in range(ctx.scale(900, 12000))]
    n_dispatch = ctx.scale(260, 3000)
    outs = []

    async def main(loop):
        loop.set_exception_handler(lambda l, c: None)
        for k, w in enumerate(worlds):
            outs.append(await run_world(w, loop, dispatch=k < n_dispatch))

    run_virtual(main)
    cases = []
    for w, o in zip(worlds, outs):
        exp = expected(w)
        if o["ran"] is None:
            # no dispatch run: the function per job is the model-free expectation
            per_job = [exp[t][1] if t in exp and exp[t][0] == q else 0 for t, q in w["jobs"]]
        else:
            per_job = []
            for j, (t, q) in enumerate(w["jobs"], start=1):
                got = o["ran"].get(j, [])
                per_job.append(0 if not got else (got[0] if len(got) == 1 else -len(got)))
        two = "ws2" in w and o["ran"] is not None
        term = world_term(w)
        obs = o["obs_static"] + per_job
        overrides = len({(op[2]) for op in w["ops"] if op[0] == "reg"}) < sum(1 for op in w["ops"] if op[0] == "reg")
        cross = any(t in exp and exp[t][0] != q for t, q in w["jobs"])
        res.add_case(term, overrides or cross)
        res.count("worlds_with_dispatch_run" if o["ran"] is not None else "worlds_static")
        res.count("worlds_with_queue_moving_override", int(any(
            a[0] == "reg" and b[0] == "reg" and a[2] == b[2] and a[3] != b[3] for a in w["ops"] for b in w["ops"])))
        if any(k == "lockstep_two_consumers_one_queue" for k, _ in o["failures"]):
            res.count("worlds_hit_by_known_finding")      # the model has no lock-step: not compared
        elif not two:
            cases.append((term, obs))
        else:
            # two workers: the model predicts the first worker's share; jobs the second worker may run are compared by the oracle only
            exp2 = expected(w, "ws2")
            masked = [v if not (t in exp2 and exp2[t][0] == q) else None for v, (t, q) in zip(per_job, w["jobs"])]
            if all(v is not None for v in masked):
                cases.append((term, obs))
        seen = set()
        for kind, what in o["failures"]:
            if kind not in seen:
                seen.add(kind)
                res.failures.append(Failure(kind, what, {"world": w}, None))
    if outs:
        res.samples = [{"coq": cases[0][0][:800], "impl_obs": cases[0][1][:80]}]
    bad, mo = runmodel.run_cases("c11", "Router", "router_obs", cases, shard=300)
    for i in bad:
        res.mismatches.append({"relation": "router_obs", "coq": cases[i][0][:3000], "impl_obs": cases[i][1][:300],
                               "model_obs": (mo.get(i) or [])[:300]})
    res.model_cases += len(cases)
    res.traces_validated += len(cases) - len(bad)
    # (b) shared-queue histories
    hists = [gen_hist(rng, rng.randint(8, 40)) for _ in range(ctx.scale(250, 4000))]
    _mem.run_histories(ctx, res, "c11m", hists, WHICH, rng)
    _rabbit.run_seq(ctx, res, "c11q", {"C11"}, "any", 80, 1500, rng)
    return res


def replay(ctx: Ctx, rp: dict) -> dict:
    case = rp.get("case") or {}
    if "world" in case:
        w = case["world"]
        w["ops"] = [tuple(o) for o in w["ops"]]
        w["jobs"] = [tuple(j) for j in w["jobs"]]
        out = {}

        async def main(loop):
            loop.set_exception_handler(lambda l, c: None)
            o = await run_world(w, loop, dispatch=True)
            out.update({"oracle": o["failures"][:10], "ran": {str(k): v for k, v in (o["ran"] or {}).items()}})

        run_virtual(main)
        out["fails"] = bool(out["oracle"])
        return out
    return _mem.replay_history(ctx, rp, WHICH)
