"""C03: the hand-over pipeline of the Redis consumer against Handover.v, by state observation.

A real `_RedisConsumer` over the fake server; a caller task that calls `consume()` through the middleware wrapper (emitter
set, optionally with suspending subscribers) and keeps what it receives; the caller is cancelled c loop iterations and
`finish()` is called k loop iterations after the caller started, for a grid of (k, c).  Before EVERY loop iteration the
custody of every message is read off the client's fields and the server's state (the abstraction function below); between
two snapshots that differ, the events that explain the difference are inferred, and Coq decides whether, in some order,
they are steps of the model that lead exactly to the observed state (`Handover.accept_seg`).  A message that is marked as
processing on the server and known to nobody has no custody: the run is rejected at that snapshot.

The final state of every run is also judged directly: unless the caller was cancelled after finish() had collected (the
model's `late`), every message is back in its queue, dead-lettered or with the caller."""
import asyncio
from collections import deque

from .. import coqterm as ct
from .. import redisrun, runmodel
from ..common import Failure
from ..vloop import run_virtual

S = 1_000_000
(Q, DEAD, T0, T1, TK, HAND, BUF, RET, UND, CALLER, NACK, REJ, BOUNCE) = range(13)
LOST = 99
NAMES = ["queue", "dead", "taking(sent)", "taking(applied)", "taken", "in_hand", "buffer", "returning", "undelivered", "caller",
         "nacking", "rejecting", "bouncing"]
# per-message edges of the model (only to PROPOSE events; Coq decides)
EDGES = {
    Q: [(T0, "HTakeStart")], T0: [(T1, "HTakeApply")], T1: [(TK, "HTakeDone")], TK: [(HAND, "HDetails"), (NACK, "HDetails"), (REJ, "*HFinCollect")],
    HAND: [(BUF, "HPut"), (REJ, "*HFinCollect")], BUF: [(RET, "HCallGet"), (NACK, "HCallGet"), (REJ, "*HFinCollect")],
    UND: [(RET, "HCallGet"), (NACK, "HCallGet"), (REJ, "*HFinCollect")], RET: [(CALLER, "HDeliver"), (UND, "*HCancelCall")],
    NACK: [(DEAD, "HNackDone")], REJ: [(Q, "HRejectDone")], DEAD: [], CALLER: [],
}


# ... and of its RabbitMQ flavour (the server pushes; T1 = delivered, callback not run yet)
EDGES_PUSH = {
    Q: [(T1, "HPushStart")], T1: [(BUF, "HPushDone"), (NACK, "HPushDone"), (BOUNCE, "HBounce")], BOUNCE: [(Q, "HBounceDone")],
    BUF: [(RET, "HCallGet"), (NACK, "HCallGet"), (REJ, "*HFinCollect")],
    UND: [(RET, "HCallGet"), (NACK, "HCallGet"), (REJ, "*HFinCollect")], RET: [(CALLER, "HDeliver"), (UND, "*HCancelCall")],
    NACK: [(DEAD, "HNackDone")], REJ: [(Q, "HRejectDone")], DEAD: [], CALLER: [],
}


def path(a: int, b: int, edges=None):
    """shortest event path from custody a to custody b (None if there is none)"""
    edges = EDGES if edges is None else edges
    if a == b:
        return []
    seen, dq = {a: []}, deque([a])
    while dq:
        x = dq.popleft()
        for y, ev in edges.get(x, []):
            if y not in seen:
                seen[y] = seen[x] + [ev]
                if y == b:
                    return seen[y]
                dq.append(y)
    return None


SCENARIOS = [
    # n messages, ids expired from the start, ids expiring 0.2 s after enqueue, buffer size, wire latency, wait before the caller
    # starts (s), suspending subscribers
    {"name": "plain", "n": 3, "expired": (), "expiring": (), "max": 5, "latency": 0, "wait": 0.0, "subs": False},
    {"name": "small_buffer_expired", "n": 4, "expired": (2,), "expiring": (), "max": 1, "latency": 0, "wait": 0.0, "subs": False},
    {"name": "expiring_in_buffer", "n": 3, "expired": (), "expiring": (1, 2), "max": 5, "latency": 0, "wait": 0.3, "subs": False},
    {"name": "slow_wire_subscribers", "n": 3, "expired": (), "expiring": (), "max": 2, "latency": 2, "wait": 0.0, "subs": True},
    {"name": "subscribers_expiring", "n": 3, "expired": (3,), "expiring": (2,), "max": 5, "latency": 0, "wait": 0.3, "subs": True},
]


async def one_run(loop, sc, k, c):
    import repid.connections.redis.utils as ru
    from repid.middlewares import Middleware
    from ..clock import CLOCK
    from ..pyparams import mk_params
    from ..world import key
    w = redisrun.RedisWorld([1])
    ids = list(range(1, sc["n"] + 1))
    now = CLOCK.now_us()
    ttl_of = {}
    for i in ids:
        if i in sc["expired"]:
            ts, ttl = now - 2 * S, 1000
        elif i in sc["expiring"]:
            ts, ttl = now, 200_000
        else:
            ts, ttl = now, None
        ttl_of[i] = (ts, ttl)
        await w.mb.enqueue(key(f"m{i}", "t1", "q1", 5), f"p{i}", mk_params(ts=ts, ttl=ttl))
    w.srv.latency = sc["latency"]
    st = {"received": set(), "returning": None, "nacking": set(), "rejecting": set(), "call": False, "fin_called": False, "fin_done": False,
          "collected": False, "late": False, "snaps": []}
    # the broker's nack / reject: issued ... returned
    for opname, bag in (("nack", st["nacking"]), ("reject", st["rejecting"])):
        orig = getattr(w.mb, opname)

        def make(orig=orig, bag=bag, opname=opname):
            def op(k_):
                i = redisrun.num(k_.id_)
                bag.add(i)

                async def run():
                    try:
                        return await orig(k_)
                    finally:
                        bag.discard(i)
                return run()
            return op
        setattr(w.mb, opname, make())
    await w.add_consumer(1, 1, 0, None, sc["max"])
    cons = w.consumers[1]

    class WatchedQueue(asyncio.Queue):
        # finish() drains the buffer with `while self.queue.qsize() > 0` as the last step of its collection (the background
        # task, the only other user of qsize(), has ended by then): that is the moment `collected`
        def qsize(self):
            if st["fin_called"]:
                st["collected"] = True
            return super().qsize()
    cons.queue = WatchedQueue(maxsize=cons.queue.maxsize)          # (the background task has not run yet)
    mw = Middleware()
    if sc["subs"]:
        async def before_consume() -> None:
            await asyncio.sleep(0)

        async def after_consume(result) -> None:
            await asyncio.sleep(0)
            await asyncio.sleep(0)
        mw.add_subscriber(before_consume)
        mw.add_subscriber(after_consume)
    cons._signal_emitter = mw.emit_signal
    wrapper = cons.consume
    inner = wrapper.fn

    async def logged():
        st["inner_active"] = True
        try:
            msg = await inner()
        finally:
            st["inner_active"] = False
        st["returning"] = redisrun.num(msg[0].id_)
        return msg
    wrapper.fn = logged
    keep = getattr(wrapper, "on_undelivered_result", None)

    def kept(msg):
        st["returning"] = None
        if keep is not None:
            keep(msg)
    wrapper.on_undelivered_result = kept

    def expired_now(i):
        ts, ttl = ttl_of[i]
        return ttl is not None and CLOCK.now_us() > ts + ttl

    def custody(i, places):
        sp = [p[0] for p in places.get(i, [])]
        und = getattr(cons, "_undelivered", None)
        taking = None
        tt = cons._take_task
        if tt is not None and not tt.done():
            fr = tt.get_coro().cr_frame
            if fr is not None:
                taking = redisrun.num(fr.f_locals["msg_short_name"].split(":")[1])
        if i in st["received"]:
            return CALLER if sp == ["processing"] else LOST
        if st["returning"] == i:
            return RET
        if und is not None and redisrun.num(und[0].id_) == i:
            return UND
        if i in [redisrun.num(k_.id_) for (k_, _, _) in list(cons.queue._queue)]:
            return BUF
        if cons._in_hand is not None and redisrun.num(cons._in_hand.id_) == i:
            return HAND
        tk = getattr(cons, "_taken", None)
        if tk is not None and redisrun.num((tk if isinstance(tk, str) else tk[0]).split(":")[1]) == i:
            return TK
        if taking == i:
            return T1 if "processing" in sp else T0
        if i in st["rejecting"] and sp == ["processing"]:
            return REJ
        if i in st["nacking"] and sp == ["processing"]:
            return NACK
        if sp == ["normal"]:
            return Q
        if sp == ["dead"]:
            return DEAD
        return LOST

    def snapshot(lp=None):
        places = w.places()
        phase = 3 if st["fin_done"] else 2 if st["collected"] else 1 if st["fin_called"] else 0
        cust = tuple(custody(i, places) for i in ids)
        snap = note_late(st, (phase, call_obs(st, cust), int(st["late"]), cust, tuple(int(expired_now(i)) for i in ids)))
        if not st["snaps"] or st["snaps"][-1] != snap:
            st["snaps"].append(snap)

    async def caller():
        try:
            while True:
                st["call"] = True
                msg = await cons.consume()
                st["returning"] = None
                st["received"].add(redisrun.num(msg[0].id_))
                st["call"] = False
                await asyncio.sleep(0)
        except asyncio.CancelledError:
            st["call"] = False
            raise

    snapshot()
    loop.step_hook = snapshot
    if sc["wait"]:
        await asyncio.sleep(sc["wait"])
    it0 = loop.iteration
    ct_ = asyncio.ensure_future(caller())
    fin = None
    cancelled = False
    while True:
        n = loop.iteration - it0
        if c is not None and not cancelled and n >= c:
            ct_.cancel()
            cancelled = True
            st["cancel_req"] = True
        if fin is None and n >= k:
            async def do_finish():
                st["fin_called"] = True
                await cons.finish()
                st["fin_done"] = True
            fin = asyncio.ensure_future(do_finish())
        if fin is not None and fin.done() and (c is None or cancelled):
            break
        if n > 3000:
            break
        await asyncio.sleep(0)
    await asyncio.sleep(0.3)
    for _ in range(40 + 20 * sc["latency"]):
        await asyncio.sleep(0)
    if not ct_.done():
        # the caller is blocked in consume() for good: end it (the consumer is finished, nothing can arrive)
        ct_.cancel()
        await asyncio.gather(ct_, return_exceptions=True)
    snapshot()
    loop.step_hook = None
    err = None
    if fin is None or not fin.done():
        err = "finish() did not return"
    elif fin.exception() is not None:
        err = f"finish() raised {fin.exception()!r}"
    return {"ids": ids, "snaps": st["snaps"], "err": err, "late": st["late"],
            "initially_expired": [i for i in ids if i in sc["expired"]]}


RABBIT_SCENARIOS = [
    {"name": "rabbit_plain", "n": 3, "expiring": (), "max": 5, "wait": 0.0, "subs": False},
    {"name": "rabbit_prefetch_1", "n": 3, "expiring": (), "max": 1, "wait": 0.0, "subs": True},
    {"name": "rabbit_expiring_in_buffer", "n": 3, "expiring": (1, 3), "max": 5, "wait": 0.3, "subs": False},
    # consume() is blocked on an empty buffer when the message is published, 3 loop iterations after the caller started
    {"name": "rabbit_blocked_consume", "n": 1, "expiring": (), "max": 5, "wait": 0.0, "subs": False, "publish_at": {1: 3}},
    {"name": "rabbit_blocked_consume_2", "n": 2, "expiring": (), "max": 5, "wait": 0.0, "subs": False, "publish_at": {2: 12}},
]


async def one_run_rabbit(loop, sc, k, c):
    """the same experiment on the RabbitMQ consumer over the fake channel"""
    import inspect
    from repid.middlewares import Middleware
    from .. import rabbitrun
    from ..clock import CLOCK
    from ..fakeamqp import ISSUER
    from ..pyparams import mk_params
    from ..world import key
    w = rabbitrun.RabbitWorld()
    tok = ISSUER.set(("api",))
    ids = list(range(1, sc["n"] + 1))
    st = {"received": set(), "returning": None, "nack_tags": set(), "reject_tags": set(), "call": False, "fin_called": False,
          "fin_done": False, "collected": False, "late": False, "snaps": []}
    try:
        await w.mb.queue_declare("q1")
        now = CLOCK.now_us()
        ttl_of = {}
        later = dict(sc.get("publish_at", {}))
        unpublished = set(later)
        for i in ids:
            ttl = 200_000 if i in sc["expiring"] else None
            ttl_of[i] = (now, ttl)
            if i not in later:
                await w.mb.enqueue(key(f"m{i}", "t1", "q1", 5), f"p{i}", mk_params(ts=now, ttl=ttl))
        for opname, bag in (("basic_nack", st["nack_tags"]), ("basic_reject", st["reject_tags"])):
            orig = getattr(w.srv, opname)

            def make(orig=orig, bag=bag):
                def op(tag, *a, **kw):
                    bag.add(tag)

                    async def run():
                        try:
                            return await orig(tag, *a, **kw)
                        finally:
                            bag.discard(tag)
                    return run()
                return op
            setattr(w.srv, opname, make())
        st["nacking_ids"] = set()
        orig_nack = w.mb.nack

        def nack(k_):                          # consume() hands an expired message to a shielded broker.nack(): issued here
            i = rabbitrun.num(k_.id_)
            st["nacking_ids"].add(i)

            async def run():
                try:
                    return await orig_nack(k_)
                finally:
                    st["nacking_ids"].discard(i)
            return run()
        w.mb.nack = nack
        cons = w.mb.get_consumer("q1", None, sc["max"])

        st["got"] = None

        class WatchedQueue(asyncio.Queue):
            def qsize(self):                  # finish() drains the buffer with `while self.queue.qsize() > 0`: the collection
                if st["fin_called"]:
                    st["collected"] = True
                return super().qsize()

            async def get(self):              # consume() waits for the buffer in a helper task: the item is that task's result
                item = await super().get()    # for an iteration - out of the buffer (finish() does not see it), not yet returned
                st["got"] = rabbitrun.num(item[0].id_)
                return item
        cons.queue = WatchedQueue()
        mw = Middleware()
        if sc["subs"]:
            async def before_consume() -> None:
                await asyncio.sleep(0)

            async def after_consume(result) -> None:
                await asyncio.sleep(0)
                await asyncio.sleep(0)
            mw.add_subscriber(before_consume)
            mw.add_subscriber(after_consume)
        cons._signal_emitter = mw.emit_signal
        wrapper = cons.consume
        inner = wrapper.fn

        async def logged():
            st["inner_active"] = True
            try:
                msg = await inner()
            finally:
                st["inner_active"] = False
            st["returning"] = rabbitrun.num(msg[0].id_)
            return msg
        wrapper.fn = logged
        keep = getattr(wrapper, "on_undelivered_result", None)

        def kept(msg):
            st["returning"] = None
            if keep is not None:
                keep(msg)
        wrapper.on_undelivered_result = kept

        def expired_now(i):
            ts, ttl = ttl_of[i]
            return ttl is not None and CLOCK.now_us() > ts + ttl

        def custody(i, places, tag_of, cb_state):
            sp = [p[0] for p in places.get(i, [])]
            if i in unpublished and not sp:
                return Q                         # not published yet: for the consumer the same as waiting on the server
            und = getattr(cons, "_RabbitConsumer__returned", None)
            if i in st["received"]:
                return CALLER if sp == ["unacked"] else LOST
            if st["returning"] == i:
                return RET
            if und is not None and rabbitrun.num(und[0].id_) == i:
                return UND
            if i in [rabbitrun.num(k_.id_) for (k_, _, _) in list(cons.queue._queue)]:
                return BUF
            if sp == ["unacked"]:
                tag = tag_of.get(i)
                cb = cb_state.get(tag)
                if cb == "created":
                    return T1
                if tag in st["nack_tags"] or i in st["nacking_ids"]:
                    return NACK
                if st["got"] == i and cb is None and tag not in st["reject_tags"]:
                    return RET                   # consume()'s helper task has taken it out of the buffer: on its way to the caller
                if cb == "running":
                    return BOUNCE
                if tag in st["reject_tags"]:
                    return REJ
                return LOST
            if sp == ["ready"]:
                return Q
            if sp == ["dead"]:
                return DEAD
            return LOST

        def snapshot(lp=None):
            places = rabbitrun.w_state(w)["places"]
            tag_of = {rabbitrun.num(u["msg"]["id"]): u["tag"] for u in w.srv.unacked}
            cb_state = {}
            for t in w.srv._cb_tasks:
                if t.done():
                    continue
                co = t.get_coro()
                fr = getattr(co, "cr_frame", None)
                if fr is None or "message" not in fr.f_locals:
                    continue
                cb_state[fr.f_locals["message"].delivery_tag] = "created" if inspect.getcoroutinestate(co) == inspect.CORO_CREATED else "running"
            phase = 3 if st["fin_done"] else 2 if st["collected"] else 1 if st["fin_called"] else 0
            cust = tuple(custody(i, places, tag_of, cb_state) for i in ids)
            snap = note_late(st, (phase, call_obs(st, cust), int(st["late"]), cust, tuple(int(expired_now(i)) for i in ids)))
            if not st["snaps"] or st["snaps"][-1] != snap:
                st["snaps"].append(snap)

        async def caller():
            try:
                while True:
                    st["call"] = True
                    msg = await cons.consume()
                    st["returning"] = None
                    st["received"].add(rabbitrun.num(msg[0].id_))
                    st["call"] = False
                    await asyncio.sleep(0)
            except asyncio.CancelledError:
                st["call"] = False
                raise

        snapshot()
        loop.step_hook = snapshot
        await cons.start()
        if sc["wait"]:
            await asyncio.sleep(sc["wait"])
        it0 = loop.iteration
        ct_ = asyncio.ensure_future(caller())
        fin = None
        cancelled = False
        pubs = []
        while True:
            n = loop.iteration - it0
            for i, at in list(later.items()):
                if n >= at:
                    del later[i]
                    pubs.append(asyncio.ensure_future(w.mb.enqueue(key(f"m{i}", "t1", "q1", 5), f"p{i}", mk_params(ts=now))))
            if c is not None and not cancelled and n >= c:
                ct_.cancel()
                cancelled = True
                st["cancel_req"] = True
            if fin is None and n >= k:
                async def do_finish():
                    st["fin_called"] = True
                    await cons.finish()
                    st["fin_done"] = True
                fin = asyncio.ensure_future(do_finish())
            if fin is not None and fin.done() and (c is None or cancelled) and not later:
                break
            if n > 3000:
                break
            await asyncio.sleep(0)
        await asyncio.gather(*pubs)
        await asyncio.sleep(0.3)
        await w.settle()
        if not ct_.done():
            ct_.cancel()
            await asyncio.gather(ct_, return_exceptions=True)
        await w.settle()
        snapshot()
    finally:
        loop.step_hook = None
        ISSUER.reset(tok)
    err = None
    if fin is None or not fin.done():
        err = "finish() did not return"
    elif fin.exception() is not None:
        err = f"finish() raised {fin.exception()!r}"
    return {"ids": ids, "snaps": st["snaps"], "err": err, "late": st["late"], "initially_expired": [], "push": True}


def call_obs(st, cust) -> int:
    """a consume() call is in progress - until its cancellation has taken effect: the request travels from the caller's task down
    to consume()'s own and back, the model's HCancelCall is the moment the returned message (if any) changes hands"""
    return int(st["call"] and not (st.get("cancel_req") and not st.get("inner_active") and RET not in cust))


def note_late(st, snap):
    """the model's `late`: a consume() call that held a returned message ended without delivering it, and the message is still
    kept undelivered although finish() has collected - the cancellation came after the collection"""
    prev = st["snaps"][-1] if st["snaps"] else None
    if prev is None or st["late"]:
        return snap
    phase, call, _, cust, exp = snap
    if prev[1] == 1 and call == 0 and phase >= 2 and any(a == RET and b == UND for a, b in zip(prev[3], cust)):
        st["late"] = True
        return (phase, call, 1, cust, exp)
    return snap


def segments(r):
    """[(events, observation)] between consecutive snapshots; None if a custody has no name or no path"""
    segs = []
    snaps = r["snaps"]
    for a, b in zip(snaps, snaps[1:]):
        evs, glob = [], []
        for i, xa, xb in zip(r["ids"], a[4], b[4]):
            if xb and not xa:
                evs.append(f"(HExpire {i})")
        if LOST in b[3]:
            return segs, f"custody unknown: {dict(zip(r['ids'], b[3]))}"
        delivered = [i for i, ca, cb in zip(r["ids"], a[3], b[3]) if cb == CALLER and ca != CALLER]
        for i, ca, cb in zip(r["ids"], a[3], b[3]):
            p = path(ca, cb, EDGES_PUSH if r.get("push") else EDGES)
            if p is None:
                return segs, f"message {i}: no way from {NAMES[ca]} to {NAMES[cb]}"
            for e in p:
                if e.startswith("*"):
                    if e[1:] not in glob:
                        glob.append(e[1:])
                else:
                    evs.append(f"({e} {i})")
        if a[0] < 1 <= b[0]:
            glob.append("HFinStart")
        if a[0] < 2 <= b[0] and "HFinCollect" not in glob:
            glob.append("HFinCollect")
        if a[0] < 3 <= b[0]:
            glob.append("HFinDone")
        # the call flag: a delivery ends a call; the caller starts the next one at once
        calls_after = a[1]
        for _ in delivered:
            calls_after = 0
        if "HCancelCall" in glob:
            calls_after = 0
        elif a[1] == 1 and b[1] == 0 and not delivered:
            glob.append("HCancelCall")
            calls_after = 0
        if b[1] == 1 and calls_after == 0:
            glob.append("HCallStart")
        segs.append((evs + glob, [b[0], b[1], b[2], *b[3]]))
    return segs, None


def check(ctx, res) -> None:
    import repid.connections.redis.utils as ru
    orig = ru.random.random
    ru.random.random = lambda: 0.8
    runs = []
    K = ctx.scale(44, 120)

    async def main(loop):
        loop.set_exception_handler(lambda l, c: None)
        for sc in SCENARIOS:
            for k in range(0, K + 40 * sc["latency"], 1 if ctx.tier == "thorough" else 2):
                for c in (None, k - 6, k - 3, k - 1, k, k + 1, k + 2, k + 4):
                    if c is not None and c < 0:
                        continue
                    loop.max_iterations = loop.iteration + 200_000
                    r = await one_run(loop, sc, k, c)
                    r.update({"scenario": sc, "k": k, "c": c})
                    runs.append(r)
        for sc in RABBIT_SCENARIOS:
            for k in range(0, ctx.scale(36, 80), 1 if ctx.tier == "thorough" else 2):
                for c in (None, k - 6, k - 3, k - 1, k, k + 1, k + 2, k + 4):
                    if c is not None and c < 0:
                        continue
                    loop.max_iterations = loop.iteration + 200_000
                    r = await one_run_rabbit(loop, sc, k, c)
                    r.update({"scenario": sc, "k": k, "c": c})
                    runs.append(r)
    try:
        run_virtual(main)
    finally:
        ru.random.random = orig
    cases, seen = [], set()
    for r in runs:
        res.count("handover_runs")
        final = r["snaps"][-1]
        res.add_case(f"handover:{r['scenario']['name']}:{r['k']}:{r['c']}:{final[3]}", len(r["snaps"]) > 4)
        if r["late"]:
            res.count("handover_runs_with_a_late_cancellation (caller cancelled after finish() had collected: outside the worker's discipline)")
        rep = {"handover_run": {"scenario": r["scenario"], "k": r["k"], "c": r["c"]}}
        if r["err"]:
            res.failures.append(Failure("handover_finish_failed", f"scenario {r['scenario']['name']}, finish() at {r['k']}, caller cancelled at {r['c']}: {r['err']}", rep, None))
            continue
        bad = {i: NAMES[cu] if cu != LOST else "in flight, held by nobody" for i, cu in zip(r["ids"], final[3])
               if cu not in (Q, DEAD, CALLER) and not (cu == UND and r["late"])}
        if bad:
            res.failures.append(Failure("handover_message_left_behind", f"scenario {r['scenario']['name']}, finish() {r['k']} and cancellation of the caller "
                                        f"{r['c']} loop iterations after the caller started: after finish() returned and everything settled: {bad}", rep, None))
        segs, problem = segments(r)
        if problem:
            res.failures.append(Failure("handover_state_outside_the_model", f"scenario {r['scenario']['name']}, finish() at {r['k']}, caller cancelled at "
                                        f"{r['c']}: {problem}", rep, None))
            continue
        term = ct.pair(ct.pair(ct.pair(ct.zlist(r["ids"]), ct.zlist(r["initially_expired"]) if r["initially_expired"] else "(@nil Z)"), ct.B(bool(r.get("push")))),
                       ct.lst(ct.pair(ct.lst(evs), ct.zlist(o)) for evs, o in segs))
        if term in seen:
            res.count("handover_runs_with_a_trace_already_checked")
            continue
        seen.add(term)
        res.count("handover_segments", len(segs))
        cases.append((term, [0], rep))
    res.relations.append("handover_obs: between every two snapshots of the consumer's pipeline (taken before each loop iteration) the inferred events "
                         "are, in some order, steps of Handover.hstep leading exactly to the observed custody of every message")
    bad, mo = runmodel.run_cases("c03h", "Handover", "handover_obs", [(t, o) for t, o, _ in cases], shard=150)
    for i in bad:
        res.mismatches.append({"relation": "handover_obs", "case": cases[i][2], "coq": cases[i][0][:6000], "impl_obs": cases[i][1],
                               "model_obs": mo.get(i)})
    res.model_cases += len(cases)
    res.traces_validated += len(cases) - len(bad)



def check_subscribers(ctx, res) -> None:
    """C17 on the prefetching consumers: with subscribers of the consume signals that take loop iterations (the only thing that
    makes the wrapper's hand-over window wider than one iteration), finish() and the cancellation of the caller landing
    anywhere still leave every message with the caller, back in its queue or dead-lettered - as without subscribers (where
    the same grid is part of C03).  Oracle only."""
    import repid.connections.redis.utils as ru
    orig = ru.random.random
    ru.random.random = lambda: 0.8
    runs = []

    async def main(loop):
        loop.set_exception_handler(lambda l, c: None)
        for sc, runner in [(x, one_run) for x in SCENARIOS if x["subs"]] + [(x, one_run_rabbit) for x in RABBIT_SCENARIOS if x["subs"]]:
            for k in range(0, ctx.scale(40, 100), 2):
                for c in (k - 3, k - 1, k, k + 1, k + 2):
                    if c < 0:
                        continue
                    loop.max_iterations = loop.iteration + 200_000
                    r = await runner(loop, sc, k, c)
                    r.update({"scenario": sc, "k": k, "c": c})
                    runs.append(r)
    try:
        run_virtual(main)
    finally:
        ru.random.random = orig
    reported = False
    for r in runs:
        res.count("consume_subscribers_under_cancellation_runs")
        final = r["snaps"][-1]
        res.add_case(f"subs_handover:{r['scenario']['name']}:{r['k']}:{r['c']}:{final[3]}", True)
        bad = {i: NAMES[cu] if cu != LOST else "in flight, held by nobody" for i, cu in zip(r["ids"], final[3])
               if cu not in (Q, DEAD, CALLER) and not (cu == UND and r["late"])}
        if (bad or r["err"]) and not reported:
            reported = True
            res.failures.append(Failure("subscribers_lose_message", f"consume() with suspending before_/after_consume subscribers, scenario "
                                        f"{r['scenario']['name']}, finish() {r['k']} and cancellation of the caller {r['c']} loop iterations after "
                                        f"the caller started: {bad or r['err']} (without subscribers the same grid leaves nothing behind)",
                                        {"handover_run": {"scenario": r["scenario"], "k": r["k"], "c": r["c"]}}, None))
