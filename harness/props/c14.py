"""C14 — a message is held by at most one consumer at a time (in-memory broker)."""
from ..common import Ctx, Result
from .. import memrun
from . import _mem, _redis
from . import _rabbit
from ..common import Failure
from ..vloop import run_virtual

S = memrun.S
RULE = ("histories with 2-5 consumers of the same queue (same and different topic filters and categories) polling concurrently "
        "(their polls interleave inside one event loop; each poll is attributed to its consumer), queue contents 1..25, "
        "ack / nack / reject / requeue by the holder, shutdown (finish) of one consumer while others hold messages, cancelled "
        "calls; distinct by the printed Coq op list; non-trivial = at least two consumers received messages and one message was "
        "delivered twice (after a return) or a consumer finished while another held a message")
TRUSTED = ["brokers: in-memory (concurrent histories, cancellation), Redis client over harness/fakeredis.py = coq/RedisSrv.v (sequential histories of one client), RabbitMQ client over harness/fakeamqp.py = coq/AmqpSrv.v (sequential histories, fixed callback schedule); RedisSrv.v and AmqpSrv.v are descriptions of the servers written from their documentation, not compared with real servers (none available)",
           "all consumers live in one process and one event loop (the in-memory broker cannot be shared otherwise)"]
ASSUMPTIONS = ["clients are well-behaved (fresh ids, terminal actions by the holder on held messages)"]
WHICH = {"C14"}


def gen(rng, n_ops: int) -> dict:
    queues = [1]
    n_c = rng.randint(2, 5)
    consumers = {}
    for c in range(1, n_c + 1):
        cat = 0 if c <= 2 or rng.random() < 0.6 else rng.choice([1, 2])
        consumers[c] = (1, cat, rng.choice([None, None, None, [1, 2], [2, 3]]))
    ops, known, nid = [], {}, 1
    for _ in range(rng.randint(1, 25)):
        t = rng.choice([1, 2, 3])
        sp = {}
        if rng.random() < 0.15:
            sp["next"] = rng.choice([-1, 1500, 30_000])
        ops.append({"op": "put", "id": nid, "queue": 1, "topic": t, "params": sp})
        known[nid] = (1, t)
        nid += 1
    for _ in range(n_ops):
        r = rng.random()
        if r < 0.12:
            t = rng.choice([1, 2, 3])
            ops.append({"op": "put", "id": nid, "queue": 1, "topic": t, "params": {},
                        "cut": rng.choice([0, 1, 2, 3]) if rng.random() < 0.1 else None})
            known[nid] = (1, t)
            nid += 1
        elif r < 0.42:
            ops.append({"op": "consume_many", "cs": rng.sample(list(consumers), rng.randint(2, n_c)),
                        "timeout": rng.choice([0.0005, 0.0035, 0.0105])})
        elif r < 0.55:
            ops.append({"op": "consume", "c": rng.choice(list(consumers)), "timeout": rng.choice([0.0005, 0.0035])})
        elif r < 0.80:
            ops.append({"op": "terminal"})
        elif r < 0.85:
            ops.append({"op": "finish", "c": rng.choice(list(consumers))})
        elif r < 0.89:
            # another consumer of the queue is finished while this one is inside consume() (every iteration of the take)
            c_ = rng.choice(list(consumers))
            ops.append({"op": "consume_with_finish", "c": c_, "f": rng.choice([x for x in consumers if x != c_]),
                        "k": rng.choice([0, 1, 1, 2, 2, 3]), "timeout": rng.choice([0.0035, 0.0105])})
        elif r < 0.94:
            ops.append({"op": "together_gen"})      # finish() of a holder concurrently with terminal calls on held messages
        else:
            ops.append({"op": "tick", "d": rng.choice([0, 1000, 3000, 50000])})
    return {"queues": queues, "consumers": consumers, "ops": ops, "known": known,
            "terminal_kinds": ["ack", "nack", "reject", "reject", "reject", "requeue"]}


def nontrivial(h: dict, r: dict) -> bool:
    receivers, count = set(), {}
    fin_with_foreign = False
    prev = {}
    for e in r["trace"]:
        for c, i, t, cat in _mem.deliveries(dict(e, cspec=h["consumers"])):
            receivers.add(c)
            count[i] = count.get(i, 0) + 1
        if e["op"] in ("finish", "finish_concurrent") and any(pl and pl[0][0] == "held" and pl[0][2] != e["c"] for pl in prev.values()):
            fin_with_foreign = True
        prev = e["after"]["places"]
    return len(receivers) >= 2 and (fin_with_foreign or any(v >= 2 for v in count.values()))


def run(ctx: Ctx) -> Result:
    rng = ctx.rng()
    res = Result(rule=RULE)
    res.relations = ["mem_obs: delivered id per poll, holder of every held message after every call"]
    hists = [gen(rng, rng.randint(6, 45)) for _ in range(ctx.scale(600, 10000))]
    _mem.run_histories(ctx, res, "c14", hists, WHICH, rng, nontrivial=nontrivial)
    # Redis client: sequential histories (one consumer at a time: takes are exclusive) ...
    _redis.run_seq(ctx, res, "c14r", {"C14", "C01"}, "any", 100, 2000, rng)
    _rabbit.run_seq(ctx, res, "c14q", {"C14"}, "any", 100, 2000, rng)
    # ... and consumers with running background tasks on one queue
    outs = []

    async def main(loop):
        loop.set_exception_handler(lambda l, c: None)
        for _ in range(ctx.scale(12, 200)):
            n_cons = rng.choice([1, 2, 2, 3])
            outs.append(await _redis.concurrent_takes(rng, rng.randint(1, 10), n_cons, rng.choice([1, 2, None])))

    run_virtual(main)
    for o in outs:
        res.add_case("redis_concurrent:" + repr(sorted(o["handed"].items())), o["consumers"] >= 2)
        res.count("redis_concurrent_runs")
        dup = {i: cs for i, cs in o["handed"].items() if len(cs) > 1}
        missing = [i for i in range(1, o["n"] + 1) if i not in o["handed"]]
        if dup:
            kind = "redis_double_delivery_two_consumers" if o["consumers"] >= 2 else "redis_double_delivery_single_consumer"
            res.failures.append(Failure(kind, f"messages handed to several consumers without having been returned: {dup}", {"redis_concurrent": o}, None))
        if missing:
            res.failures.append(Failure("redis_message_never_delivered", f"messages {missing} were never handed to any listening consumer", {"redis_concurrent": o}, None))
    return res


def replay(ctx: Ctx, rp: dict) -> dict:
    return _mem.replay_history(ctx, rp, WHICH)
