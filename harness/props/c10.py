"""C10 — messages_limit is an upper bound and a stop condition."""
import asyncio

from .. import coqterm as ct
from .. import runmodel, runrun
from ..common import Ctx, Failure, Result
from ..vloop import run_virtual

S = runrun.S
RULE = ("a real Worker(messages_limit=M) in virtual time: M in 1..5, backlogs of M..M+10 jobs over 1-3 queues, tasks_limit in "
        "{1, M, > M}, actor durations from 0 to far longer than the consumer's 1 ms fetch time, equal or uneven, some jobs "
        "arriving while the worker runs, some failing; the run must return, at most M executions start, the surplus messages "
        "stay in their queues with unchanged parameters; the recorded trace (deliveries, limiter acquire/release, pause/unpause, "
        "task creation/completion, stop event, loop cancellation, give-backs) must be accepted by Runner.v's step function and "
        "end in the observed counters; plus the testing plugin's run-on-enqueue mode (M = 1). Distinct by the printed Coq trace; "
        "non-trivial = the backlog exceeds M and at least one actor runs longer than the fetch time")
TRUSTED = ["in-memory broker only", "events are labelled by reading the runner's limiter/stop-event identities and the frame locals of "
           "its tasks (labels only; a run whose labels cannot be read is reported, not silently dropped)",
           "graceful_shutdown_time is 60 s in these runs: actors that outlive it are C03's subject"]
ASSUMPTIONS = ["in-flight actors end within the graceful period after the limit is reached"]


def gen(rng, *, with_limit: bool) -> dict:
    M = rng.randint(1, 5) if with_limit else None
    qs = list(range(1, rng.choice([1, 1, 2, 3]) + 1))
    n = (M + rng.randint(0, 10)) if with_limit else rng.randint(1, 30)
    limit = rng.choice([1, M or 2, (M or 2) + rng.randint(1, 4), 1000]) if with_limit else rng.randint(1, 5)
    prof = rng.choice(["zero", "equal", "uneven", "long"])
    jobs = []
    for i in range(1, n + 1):
        d = {"zero": 0, "equal": 5000, "uneven": rng.choice([0, 300, 2500, 20_000, 120_000]), "long": rng.choice([50_000, 400_000])}[prof]
        at = 0
        if rng.random() < 0.25:
            at = rng.choice([1, 500, 1000, 2500, 5000, 20_000, 100_000])
        jobs.append({"id": i, "queue": rng.choice(qs), "dur": d, "at": at, "fail": rng.random() < 0.1,
                     "cancelled": rng.random() < 0.08})
    total = sum(j["dur"] for j in jobs) + max([j["at"] for j in jobs] + [0])
    sc = {"limit": limit, "M": M, "queues": qs, "jobs": jobs, "graceful": 60.0,
          "stop_at": None if with_limit else total + 2 * S}
    if with_limit and rng.random() < 0.15:
        sc["jobs"] = jobs[:max(0, M - rng.randint(1, 2))]      # fewer jobs than M: stop by signal
        sc["stop_at"] = total + 2 * S
    return sc


def oracle(sc: dict, r: dict) -> list:
    bad = []
    M = sc["M"]
    if r["err"]:
        bad.append(("run_did_not_return", r["err"]))
        return bad
    starts = r["starts"]
    if M is not None and len(starts) > M:
        bad.append(("more_than_M_executions", f"messages_limit={M}, {len(starts)} executions started: {starts}"))
    if len(set(starts)) != len(starts):
        bad.append(("job_executed_twice", f"executions {starts}"))
    n = len(sc["jobs"])
    if M is not None and n >= M and sc.get("stop_at") is None:
        if len(starts) < M or len(r["ends"]) < M:
            bad.append(("fewer_than_M_finished", f"messages_limit={M}, backlog {n}: {len(starts)} started, {len(r['ends'])} finished"))
    # surplus: still in its queue, same payload and parameters, nothing dead / delayed / held
    executed = set(starts)
    for j in sc["jobs"]:
        if j["id"] in executed:
            continue
        rem = r["remaining"][j["queue"]]
        m0 = r["params0"].get(j["id"])
        if m0 is None:
            continue        # never arrived (arrival after the run ended)
        where = [part for part in ("simple", "processing", "dead", "delayed") for m in rem[part] if m.key.id_ == m0.key.id_]
        if where != ["simple"]:
            bad.append(("surplus_message_not_waiting", f"job {j['id']} was not executed and is in {where}"))
        elif not any(m == m0 for m in rem["simple"]):
            bad.append(("surplus_message_changed", f"job {j['id']} was not executed but its payload/parameters changed"))
    return bad


def run_scenarios(ctx: Ctx, res: Result, scs: list, tag: str, extra_oracle=None) -> None:
    outs = []

    async def main(loop):
        loop.set_exception_handler(lambda l, c: None)
        for sc in scs:
            outs.append(await runrun.run_scenario(sc, loop))

    run_virtual(main, record_tasks=True)
    cases = []
    for sc, r in zip(scs, outs):
        evs, problems = (None, ["run failed"]) if r.get("label") is None else runrun.to_events(sc, r)
        long_job = any(j["dur"] > 1000 for j in sc["jobs"])
        nontrivial = long_job and (sc["M"] is None or len(sc["jobs"]) > sc["M"])
        if evs is not None and not problems:
            term = runrun.case_term(sc, evs)
            cases.append((term, runrun.final_obs(sc, r), sc))
            res.add_case(term, nontrivial)
            res.count("trace_events", len(evs))
            res.count("pause_round_trips_on_the_wire (EvPauseStart)", sum(1 for e in evs if e.startswith("(EvPauseStart")))
            res.count("slots_freed_during_a_pause_round_trip (EvUnpauseHold)", sum(1 for e in evs if e.startswith("(EvUnpauseHold")))
        else:
            res.add_case(repr(sc), nontrivial)
            res.count("runs_without_labels")
            res.notes.append(f"labels unavailable: {problems[:2]}")
        res.count(f"queues={len(sc['queues'])}")
        res.count("jobs", len(sc["jobs"]))
        seen = set()
        for kind, what in oracle(sc, r) + (extra_oracle(sc, r) if extra_oracle else []):
            if kind not in seen:
                seen.add(kind)
                res.failures.append(Failure(kind, what, {"scenario": sc}, None))
    if cases:
        res.samples = [{"coq": cases[0][0][:1500], "impl_obs": cases[0][1]}]
    bad, mo = runmodel.run_cases(tag, "Runner", "runner_obs", [(t, o) for t, o, _ in cases], shard=150)
    for i in bad:
        res.mismatches.append({"relation": "runner_obs (trace accepted by step_ev, final counters equal)", "case": {"scenario": cases[i][2]},
                               "coq": cases[i][0][:6000], "impl_obs": cases[i][1], "model_obs": mo.get(i)})
    res.model_cases += len(cases)
    res.traces_validated += len(cases) - len(bad)
    if res.count.__self__.distribution.get("runs_without_labels", 0) > len(scs) // 10:
        res.failures.append(Failure("labels_unreadable", "more than 10% of the runs could not be labelled: the trace tie is void", {}, None))


async def run_on_enqueue(n_jobs: int) -> dict:
    """The testing plugin's RunWorkerOnEnqueueModifier: enqueue returns after exactly that job was processed once."""
    from repid import BasicConverter, Connection, InMemoryBucketBroker, InMemoryMessageBroker, Job, Queue, Router
    from repid.testing.modifiers import EventLogModifier, RunWorkerOnEnqueueModifier
    conn = Connection(InMemoryMessageBroker(), InMemoryBucketBroker(), InMemoryBucketBroker(use_result_bucket=True))
    ran = []
    router = Router()

    async def act(jid: int) -> int:
        ran.append(jid)
        await asyncio.sleep(0.003)
        return jid

    router.actor(act, name="act", queue="q", converter=BasicConverter)
    RunWorkerOnEnqueueModifier(conn, [router])
    await Queue("q", _connection=conn).declare()
    after = []
    for i in range(1, n_jobs + 1):
        await Job("act", queue=Queue("q", _connection=conn), args={"jid": i}, _connection=conn).enqueue()
        after.append(list(ran))
    return {"after": after}


def run(ctx: Ctx) -> Result:
    rng = ctx.rng()
    res = Result(rule=RULE)
    res.relations = ["runner_obs: the recorded event trace is accepted by Runner.step_ev and ends in the observed counters and leftovers"]
    scs = [gen(rng, with_limit=True) for _ in range(ctx.scale(260, 4000))]
    for sc in scs:
        if rng.random() < 0.3:
            # a consumer whose pause() / unpause() are round trips (as RabbitMQ's basic.qos)
            sc["pause_round_trip"] = rng.choice([0.0005, 0.005, 0.05])
            if sc.get("stop_at") is not None:
                sc["stop_at"] += int(2 * sc["pause_round_trip"] * 1_000_000) * (len(sc["jobs"]) + 1)
    run_scenarios(ctx, res, scs, "c10")
    # run-on-enqueue
    outs = []

    async def main(loop):
        loop.set_exception_handler(lambda l, c: None)
        for n in (1, 2, 4):
            try:
                outs.append((n, await run_on_enqueue(n)))
            except Exception as e:  # noqa: BLE001
                outs.append((n, {"error": repr(e)}))

    run_virtual(main)
    for n, o in outs:
        res.add_case(f"run_on_enqueue:{n}", True)
        if "error" in o:
            res.notes.append(f"run-on-enqueue mode not exercised: {o['error'][:200]}")
            continue
        for k, ran in enumerate(o["after"], start=1):
            if ran != list(range(1, k + 1)):
                res.failures.append(Failure("run_on_enqueue_not_once", f"after enqueue #{k} the executed jobs are {ran}", {"n": n}, None))
                break
    return res


def replay(ctx: Ctx, rp: dict) -> dict:
    sc = (rp.get("case") or rp.get("first_diverging_case", {}).get("case"))["scenario"]
    out = {}

    async def main(loop):
        loop.set_exception_handler(lambda l, c: None)
        r = await runrun.run_scenario(sc, loop)
        out.update({"starts": r["starts"], "ends": r["ends"], "err": r["err"], "max_running": r["max_running"],
                    "oracle": oracle(sc, r)})

    run_virtual(main, record_tasks=True)
    out["fails"] = bool(out["oracle"])
    return out
