"""C03 — stopping or killing a worker at any moment loses no message (in-memory broker)."""
from .. import runmodel, runrun
from ..common import Ctx, Failure, Result
from ..vloop import run_virtual

S = runrun.S
RULE = ("a real Worker in virtual time on the in-memory broker: 1-6 jobs (durations 0 / 3 ms / 40 ms, succeeding or failing with "
        "and without retries left, with and without result storing), tasks_limit 1/2/5, graceful periods 0 / 10 ms / 200 ms; a dry "
        "run records the event-loop iterations in which something ran, then the scenario is re-run once per chosen iteration k with "
        "the stop signal delivered at exactly iteration k (every busy iteration in the thorough tier, a stratified sample in the "
        "quick tier; with graceful 0 the forced cancellation follows at once), and with messages_limit as the stop cause; after "
        "run() has returned and the loop is idle: where is every message, with which parameters, which terminal calls were made")
TRUSTED = ["shutdown: in-memory broker; process death: Redis client over the fake server in sequential histories (a dead worker = one that never disposes of what it took; no process is killed)",
           "signal = the handler the worker registered with the loop, called at the chosen loop iteration"]
ASSUMPTIONS = ["actors end when cancelled (no thread/process-pool actors)"]


def gen(rng) -> dict:
    n = rng.randint(1, 6)
    qs = [1] if rng.random() < 0.7 else [1, 2]
    jobs = []
    for i in range(1, n + 1):
        jobs.append({"id": i, "queue": rng.choice(qs), "dur": rng.choice([0, 0, 3000, 3000, 40_000]), "at": 0,
                     "fail": rng.random() < 0.35, "retries": rng.choice([0, 0, 1]), "result": rng.random() < 0.4})
    return {"limit": rng.choice([1, 2, 5]), "M": None if rng.random() < 0.8 else rng.randint(1, n), "queues": qs, "jobs": jobs,
            "graceful": rng.choice([0.0, 0.0, 0.01, 0.2]), "stop_at": None, "run_timeout": 30,
            # a broker whose ack / nack / requeue / reject take time on the wire (the in-memory ones take effect within two iterations)
            "round_trip": rng.choice([0.0, 0.0, 0.002, 0.03])}


def oracle(sc: dict, r: dict) -> list:
    bad = []
    if r["err"]:
        bad.append(("run_did_not_return", r["err"]))
        return bad
    G = sc["graceful"]
    if r["t_stop"] is not None:
        took = r["t_return"] - r["t_stop"]
        if took > int((G + 5.0 + 1.0) * S) + 1000:
            bad.append(("return_too_late", f"run() returned {took} us after the stop request; graceful period {G} s + 6 s slack"))
    ev = r["events"]
    for j in sc["jobs"]:
        mid = f"m{j['id']}"
        q = j["queue"]
        m0 = r["params0"].get(j["id"])
        if m0 is None:
            continue
        rem = r["remaining"][q]
        where = [(part, m) for part in ("simple", "processing", "dead", "delayed") for m in rem[part] if m.key.id_ == mid]
        terms = [e for e in ev if e["kind"] == "broker" and e["id"] == mid and e["op"] in ("ack", "nack", "requeue") and e["ok"]]
        done = [e for e in ev if e["kind"] == "broker_done" and e["id"] == mid and e["op"] in ("ack", "nack", "requeue")]
        taken = any(e["kind"] == "consume" and e["id"] == mid for e in ev)
        parts = [p for p, _ in where]
        if "processing" in parts:
            bad.append(("message_left_in_flight", f"job {j['id']}: still marked as being processed after run() returned ({parts})"))
            continue
        if len(done) > 1:
            bad.append(("disposed_twice", f"job {j['id']}: terminal calls {[e['op'] for e in done]}"))
            continue
        if not done:
            # not disposed: back in its queue, exactly once, as it was
            if not where:
                if terms:
                    continue      # a terminal call was cut by the cancellation after its effect: decided below by the place rules
                bad.append(("message_lost", f"job {j['id']} (taken={taken}) is nowhere after run() returned and was not disposed"))
            elif len(where) > 1:
                bad.append(("message_duplicated", f"job {j['id']}: {parts}"))
            elif parts != ["simple"] and not terms:
                bad.append(("message_misplaced", f"job {j['id']} was not disposed and is in {parts}"))
            elif parts == ["simple"] and where[0][1] != m0:
                bad.append(("retry_counter_changed", f"job {j['id']} went back to its queue with other payload/parameters: "
                            f"{where[0][1].parameters.retries} vs {m0.parameters.retries}"))
            continue
        op = done[0]["op"]
        want = {"ack": [], "nack": ["dead"], "requeue": ["delayed"]}[op]
        if parts != want:
            kind = "completed_and_returned" if len(parts) > len(want) or (op == "ack" and parts) else "disposition_undone"
            bad.append((kind, f"job {j['id']}: {op} was applied, afterwards the message is in {parts} (expected {want})"))
        # the disposition must be the right one for what the actor did
        ends = [e for e in ev if e["kind"] == "actor_end" and e["jid"] == j["id"]]
        if ends:
            expect = "ack" if not j["fail"] else ("requeue" if j["retries"] > j.get("tried", 0) else "nack")
            if op != expect:
                bad.append(("wrong_disposition_under_shutdown", f"job {j['id']}: actor {'failed' if j['fail'] else 'succeeded'}, worker did {op}"))
    return bad


def run(ctx: Ctx) -> Result:
    rng = ctx.rng()
    res = Result(rule=RULE)
    res.relations = ["(oracle only in this part) final place / parameters / terminal calls of every message"]
    n_sc = ctx.scale(40, 300)
    per_sc = ctx.scale(14, 10**6)
    runs = []

    async def main(loop):
        loop.set_exception_handler(lambda l, c: None)
        # minimised failing cases of earlier runs first, each with its neighbouring iterations
        import json as _json
        from ..common import CORPUS
        for f in sorted((CORPUS / "C03").glob("*.json")):
            sc0 = _json.loads(f.read_text())["scenario"]
            for dk in (-2, -1, 0, 1, 2):
                sck = dict(sc0, stop_iter=max(1, sc0["stop_iter"] + dk))
                runs.append((sck, await runrun.run_scenario(sck, loop), sck["stop_iter"]))
        for _ in range(n_sc):
            sc = gen(rng)
            dry = await runrun.run_scenario(dict(sc, stop_at=sum(j["dur"] for j in sc["jobs"]) + S), loop)
            runs.append((dict(sc, stop_at=sum(j["dur"] for j in sc["jobs"]) + S), dry, None))
            # the window in which something happens to a message: up to a few iterations after the last broker call
            last = max([e["it"] - dry["it0"] for e in dry["events"] if e["kind"] in ("broker_done", "consume", "store") and e.get("it")] + [0])
            busy = [k for k in dry["busy"] if 0 < k <= last + 6]
            if sc["M"] is not None:
                continue          # messages_limit is the stop cause: the dry run is the run
            ks = busy if len(busy) <= per_sc else sorted(set(busy[:4] + rng.sample(busy, per_sc - 8) + busy[-4:]))
            for k in ks:
                sck = dict(sc, stop_iter=k)
                runs.append((sck, await runrun.run_scenario(sck, loop), k))

    run_virtual(main, record_tasks=True)
    for sc, r, k in runs:
        res.add_case(repr((sc["jobs"], sc["limit"], sc["graceful"], sc["M"], k)), k is not None)
        res.count("runs_with_injected_stop" if k is not None else "dry_or_limit_runs")
        res.count(f"graceful={sc['graceful']}")
        if k is not None:
            ev = r["events"]
            started = {e["jid"] for e in ev if e["kind"] == "actor_start"}
            disposed = {e["id"] for e in ev if e["kind"] == "broker_done" and e["op"] in ("ack", "nack", "requeue")}
            rejected = {e["id"] for e in ev if e["kind"] == "broker_done" and e["op"] == "reject"}
            taken = {e["id"] for e in ev if e["kind"] == "consume"}
            res.count("messages_taken", len(taken))
            res.count("messages_disposed", len(disposed))
            res.count("messages_rejected_by_the_worker", len(rejected))
            res.count("messages_taken_but_neither_disposed_nor_rejected", len(taken - disposed - rejected))
            res.count("actors_cut_short", sum(1 for j in started if f"m{j}" not in disposed))
            res.count("terminal_calls_cut", sum(1 for e in ev if e["kind"] == "broker" and e["op"] in ("ack", "nack", "requeue")) - len(
                [e for e in ev if e["kind"] == "broker_done" and e["op"] in ("ack", "nack", "requeue")]))
        seen = set()
        for kind, what in oracle(sc, r):
            if kind not in seen:
                seen.add(kind)
                res.failures.append(Failure(kind, what, {"scenario": sc}, None))
    # trace acceptance: the recorded run must be a run of the ownership model (Shutdown.v) ending in the observed places
    cases = []
    for sc, r, k in runs:
        if len(sc["queues"]) != 1 or r.get("label") is None or r["err"]:
            res.count("runs_not_traced (two queues / no labels)")
            continue
        evs, problems = runrun.to_shutdown_events(sc, r)
        if problems:
            res.count("runs_with_unlabelled_events")
            res.notes.append(str(problems[:2]))
            continue
        cases.append((runrun.shutdown_case_term(sc, evs), runrun.shutdown_final_obs(sc, r), sc))
        res.count("shutdown_trace_events", len(evs))
    res.relations = ["shutdown_obs: the recorded event trace is accepted by Shutdown.sstep (strict) and ends in the observed places "
                     "(waiting / in flight / acked / dead / requeued)", "oracle: final place, parameters and terminal calls of every message; return bound"]
    bad, mo = runmodel.run_cases("c03", "Shutdown", "shutdown_obs", [(t, o) for t, o, _ in cases], shard=200)
    for i in bad:
        res.mismatches.append({"relation": "shutdown_obs", "case": {"scenario": cases[i][2]}, "coq": cases[i][0][:5000],
                               "impl_obs": cases[i][1], "model_obs": mo.get(i)})
    res.model_cases += len(cases)
    res.traces_validated += len(cases) - len(bad)
    if cases:
        res.samples = [{"coq": cases[0][0][:1500], "impl_obs": cases[0][1]}]
    # the death clause, on the Redis client: messages taken by a worker that dies stay marked until maintenance runs after
    # their execution timeout, then they are deliverable again (RedisBroker.maintenance; sequential histories)
    from . import _redis
    _redis.run_seq(ctx, res, "c03r", {"C01"}, "death", 120, 2500, ctx.rng("death"))
    _redis.finish_cuts(ctx, res)
    _redis.consume_cuts(ctx, res)
    _redis.consume_expired_run(ctx, res)
    from . import _rabbit
    _rabbit.consume_cuts(ctx, res)
    _rabbit.consume_waiting_cuts(ctx, res)
    from . import _wstop
    _wstop.worker_stop_cuts(ctx, res)
    # the consumer's hand-over pipeline, snapshot by snapshot, against Handover.v
    from . import _handover
    _handover.check(ctx, res)
    seen, uniq = set(), []
    for f in res.failures:
        if f.kind not in seen:
            seen.add(f.kind)
            uniq.append(f)
    res.failures = uniq
    return res


def replay(ctx: Ctx, rp: dict) -> dict:
    case = rp.get("case") or rp["first_diverging_case"]["case"]
    out = {}
    if "handover_run" in case:
        from . import _handover
        import repid.connections.redis.utils as ru
        h = case["handover_run"]
        ru.random.random = lambda: 0.8

        async def hmain(loop):
            loop.set_exception_handler(lambda l, c: None)
            r = await _handover.one_run(loop, h["scenario"], h["k"], h["c"])
            segs, problem = _handover.segments(r)
            final = r["snaps"][-1]
            out.update({"snapshots (phase, call, late, custody per message, expired per message)": r["snaps"], "custody_names": _handover.NAMES,
                        "problem": problem or r["err"], "late": r["late"],
                        "left_behind": {i: cu for i, cu in zip(r["ids"], final[3])
                                        if cu not in (_handover.Q, _handover.DEAD, _handover.CALLER) and not (cu == _handover.UND and r["late"])}})
        run_virtual(hmain)
        out["fails"] = bool(out["problem"] or out["left_behind"])
        return out
    if "worker_stop_cut" in case:
        from . import _wstop
        import repid.connections.redis.utils as ru
        o = case["worker_stop_cut"]
        ru.random.random = lambda: 0.8

        async def wmain(loop):
            loop.set_exception_handler(lambda l, c: None)
            r = await _wstop.one_run(loop, o["broker"], o["k"], o["durs"], o["graceful"], o.get("queues", 1), o.get("messages_limit"),
                                     o.get("tasks_limit", 2), o.get("jobs", 4), o.get("subscribers", False), o.get("eager", False), o.get("latency", 0))
            out.update(r)
        run_virtual(wmain)
        out["fails"] = bool(out["err"] or out["inflight"] or out["dup"] or out.get("ghosts"))
        return out
    if "scenario" not in case:
        return {"fails": None, "note": "this kind of case is re-run by `./check C03` as a whole (the cut-point enumerations are deterministic)"}
    sc = case["scenario"]

    async def main(loop):
        loop.set_exception_handler(lambda l, c: None)
        r = await runrun.run_scenario(sc, loop)
        out.update({"oracle": oracle(sc, r), "starts": r["starts"], "ends": r["ends"], "stop_fired_at": r["stop_fired_at"],
                    "broker": [(e["kind"], e["op"], e["id"]) for e in r["events"] if e["kind"] in ("broker", "broker_done")]})

    run_virtual(main, record_tasks=True)
    out["fails"] = bool(out["oracle"])
    return out
