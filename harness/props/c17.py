"""C17 — middleware only observes."""

import asyncio
import random

from .. import coqterm as ct
from .. import runmodel
from ..common import Ctx, Failure, Result
from ..clock import CLOCK
from ..pyparams import mk_params

RULE = ("(a) sequences of 3-10 wrapped operations called directly on in-memory message brokers, bucket brokers and consumers of "
        "one or two connections (enqueue / ack / nack / reject / requeue / queue_declare / queue_flush / queue_delete / "
        "get_bucket / store_bucket / delete_bucket / consume), each with 0..all arguments passed positionally and the rest by "
        "keyword, succeeding or failing (undeclared queue, consumer not started), with generated subscriber sets on both "
        "connections: functions and methods, sync and async, accepting any subset of the signal's keyword arguments (defaults or "
        "required, sometimes a required argument the signal does not carry), raising or slow; every sequence is run a second "
        "time without subscribers and results, exceptions and broker state are compared; (b) whole deliveries through real "
        "Workers of two connections alive at once (actor_run with an eager response nested inside or a plain outcome, then the "
        "worker's own ack / nack / requeue and result store). Distinct by the printed Coq case; non-trivial = a subscriber "
        "received a signal and the sequence has a failing operation, a nested operation or two connections")
TRUSTED = ["sync subscribers run in a thread pool: their order inside one emit_signal is compared as a set",
           "BaseException from subscribers and cancellation of emit_signal are outside the model",
           "real-time event loop in this check"]
ASSUMPTIONS = ["subscribers raise only Exception subclasses"]

OPS = ("consume", "enqueue", "queue_declare", "queue_flush", "queue_delete", "ack", "nack", "reject", "requeue",
       "get_bucket", "store_bucket", "delete_bucket", "actor_run")
OPC = {n: i + 1 for i, n in enumerate(OPS)}
PARAMS = {"enqueue": ["key", "payload", "params"], "requeue": ["key", "payload", "params"], "ack": ["key"], "nack": ["key"],
          "reject": ["key"], "queue_declare": ["queue_name"], "queue_flush": ["queue_name"], "queue_delete": ["queue_name"],
          "get_bucket": ["id_"], "store_bucket": ["id_", "payload"], "delete_bucket": ["id_"], "consume": [],
          "actor_run": ["actor", "key", "parameters", "payload", "connection"]}
PN = {"key": 1, "payload": 2, "params": 3, "queue_name": 4, "id_": 5, "actor": 6, "parameters": 7, "connection": 8, "result": 999,
      "bogus": 50}


def before_of(op):
    return 2 * OPC[op]


def after_of(op):
    return 2 * OPC[op] + 1


MISSING = object()          # default of optional subscriber parameters: "this argument was not passed"


class Codes:
    """value -> number, by identity for objects and by value for strings"""

    def __init__(self):
        self.by_id, self.by_val, self.keep, self.n = {}, {}, [], 100

    def reg(self, obj, code=None):
        if code is None:
            self.n += 1
            code = self.n
        if isinstance(obj, (str, int)) or obj is None:
            self.by_val[obj] = code
        else:
            self.by_id[id(obj)] = code
            self.keep.append(obj)
        return code

    def of(self, obj):
        if obj is None:
            return 0
        if isinstance(obj, (str, int)) and obj in self.by_val:
            return self.by_val[obj]
        if id(obj) in self.by_id:
            return self.by_id[id(obj)]
        if isinstance(obj, tuple) and obj and id(obj[0]) in self.by_id:       # consume() result: (key, payload, params)
            return 5000 + self.by_id[id(obj[0])]
        if hasattr(obj, "success") and hasattr(obj, "reporting_done"):          # ActorResult
            return 7000 + (1 if obj.success else 0) + (2 if obj.reporting_done else 0)
        if hasattr(obj, "data") and isinstance(getattr(obj, "data"), str) and obj.data in self.by_val:
            return 6000 + self.by_val[obj.data]
        return -1


def make_subscriber(spec: dict, log: list, codes: Codes):
    """spec: sid, signal name, params [(name, has_default)], kwonly [(name, has_default)], sync, raises, slow, method"""
    names = [n for n, _ in spec["params"]] + [n for n, _ in spec["kwonly"]]
    sig = ", ".join(([f"self"] if spec["method"] else []) +
                    [f"{n}=MISSING" if d else n for n, d in spec["params"]] +
                    (["*"] if spec["kwonly"] else []) + [f"{n}=MISSING" if d else n for n, d in spec["kwonly"]])
    body = (f"    LOG.append(({spec['sid']}, {spec['signal_code']}, "
            f"{{k: v for k, v in dict({', '.join(f'{n}={n}' for n in names)}).items() if v is not MISSING}}))\n"
            + ("    import time; time.sleep(0.002)\n" if spec["slow"] and spec["sync"] else "")
            + ("    await SLEEP(0.002)\n" if spec["slow"] and not spec["sync"] else "")
            + ("    raise RuntimeError('subscriber failure')\n" if spec["raises"] else "    return 12345\n"))
    src = f"{'def' if spec['sync'] else 'async def'} {spec['signal']}({sig}):\n{body}"
    ns = {"LOG": log, "SLEEP": asyncio.sleep, "MISSING": MISSING}
    if spec["method"]:
        src = "class Holder:\n" + "\n".join("    " + l for l in src.splitlines()) + "\n"
        exec(compile(src, "<gen>", "exec", dont_inherit=True), ns)  # noqa: S102
        return ns["Holder"]()
    exec(compile(src, "<gen>", "exec", dont_inherit=True), ns)  # noqa: S102
    return ns[spec["signal"]]


def sub_term(spec: dict) -> str:
    accepts = [PN[n] for n, _ in spec["params"]]           # getfullargspec(fn).args: keyword-only names are not accepted
    required = [PN[n] for n, d in spec["params"] if not d] + [PN[n] for n, d in spec["kwonly"] if not d]
    return (f"(mkSub {spec['sid']} {spec['conn']} {spec['signal_code']} {ct.zlist(accepts)} {ct.zlist(required)} "
            f"{ct.B(spec['raises'])})")


def gen_subs(rng, n_conn: int, ops_used: list, start_sid: int = 1) -> list:
    subs = []
    sid = start_sid
    for _ in range(rng.randint(2, 9)):
        op = rng.choice(ops_used)
        when = rng.choice(["before", "after"])
        pool = PARAMS[op] + (["result"] if when == "after" else [])
        chosen = [n for n in pool if rng.random() < 0.6]
        params = [(n, rng.random() < 0.3) for n in chosen]
        kwonly = []
        if rng.random() < 0.12:
            params.append(("bogus", rng.random() < 0.5))        # an argument no signal carries
        if rng.random() < 0.12 and pool:
            n = rng.choice(pool)
            if n not in [x for x, _ in params]:
                kwonly.append((n, rng.random() < 0.6))
        params.sort(key=lambda nd: nd[1])               # parameters without a default first (Python syntax)
        subs.append({"sid": sid, "conn": rng.randint(1, n_conn), "signal": f"{when}_{op}",
                     "signal_code": before_of(op) if when == "before" else after_of(op), "params": params, "kwonly": kwonly,
                     "sync": rng.random() < 0.3, "raises": rng.random() < 0.25, "slow": rng.random() < 0.15,
                     "method": rng.random() < 0.3})
        sid += 1
    return subs


# ------------------------------------------------------------------ (a) direct operations
def gen_direct(rng) -> dict:
    n_conn = rng.choice([1, 1, 2])
    ops = []
    for _ in range(rng.randint(3, 10)):
        op = rng.choice(["enqueue", "enqueue", "ack", "nack", "reject", "requeue", "queue_declare", "queue_flush", "queue_delete",
                         "get_bucket", "store_bucket", "delete_bucket", "consume", "consume"])
        n = len(PARAMS[op])
        ops.append({"op": op, "conn": rng.randint(1, n_conn), "npos": rng.randint(0, n),
                    "queue": rng.choice(["q1", "q1", "q1", "nope"]), "mid": rng.randint(1, 4), "started": rng.random() < 0.8})
    used = sorted({o["op"] for o in ops})
    return {"kind": "direct", "n_conn": n_conn, "ops": ops, "subs": gen_subs(rng, n_conn, used)}


async def run_direct_pair(case: dict):
    """the case with and without its subscribers.  consume() on an empty queue is given up after 30 ms of REAL time (this check
    runs on a real-time loop); synchronous subscribers run in executor threads, whose start can take longer than that on a
    loaded machine: a pair that differs is run again with a whole second before it is judged"""
    a, b = await run_direct(case, True), await run_direct(case, False)
    if a["outcomes"] != b["outcomes"]:
        a, b = await run_direct(case, True, 1.0), await run_direct(case, False, 1.0)
    return a, b


async def run_direct(case: dict, with_subs: bool, consume_timeout: float = 0.03) -> dict:
    from repid import Connection, InMemoryBucketBroker, InMemoryMessageBroker
    from repid.data._key import RoutingKey
    from repid.data._buckets import ArgsBucket
    log: list = []
    codes = Codes()

    def make_classes(cn):
        class MB(InMemoryMessageBroker):
            pass

        class BB(InMemoryBucketBroker):
            pass

        def wrap(cls, name):
            orig = getattr(cls.__mro__[1], name)

            async def method(self, *a, **k):
                r = await orig(self, *a, **k)
                log.append(("eff", OPC[name], cn, codes.of(r)))
                return r
            method.__name__ = name
            import inspect
            method.__signature__ = inspect.signature(orig)
            setattr(cls, name, method)
        for nm in ("enqueue", "ack", "nack", "reject", "requeue", "queue_declare", "queue_flush", "queue_delete"):
            wrap(MB, nm)
        for nm in ("get_bucket", "store_bucket", "delete_bucket"):
            wrap(BB, nm)
        return MB, BB

    conns = {}
    for cn in range(1, case["n_conn"] + 1):
        MB, BB = make_classes(cn)
        mb, bb = MB(), BB()
        conn = Connection(mb, bb, None)
        await InMemoryMessageBroker.queue_declare(mb, "q1")
        conns[cn] = (conn, mb, bb)
    if with_subs:
        for sp in case["subs"]:
            fn = make_subscriber(sp, log, codes)
            mw = conns[sp["conn"]][0].middleware
            if sp["method"]:
                mw.add_middleware(fn)
            else:
                mw.add_subscriber(fn)
    keys = {}
    payloads = {f"pl{i}": codes.reg(f"pl{i}") for i in range(1, 5)}
    params_obj = mk_params(ts=CLOCK.now_us())
    codes.reg(params_obj)
    codes.reg("q1")
    codes.reg("nope")
    for i in range(1, 5):
        codes.reg(f"b{i}")
    trees, outcomes = [], []
    consumers = {}
    for o in case["ops"]:
        conn, mb, bb = conns[o["conn"]]
        op = o["op"]
        kk = (o["conn"], o["mid"], o["queue"])
        if kk not in keys:
            keys[kk] = RoutingKey(id_=f"m{o['mid']}", topic="t", queue=o["queue"])
            codes.reg(keys[kk])
        key = keys[kk]
        if op in ("enqueue", "requeue"):
            vals = [key, f"pl{o['mid']}", params_obj]
            target = getattr(mb, op)
        elif op in ("ack", "nack", "reject"):
            vals = [key]
            target = getattr(mb, op)
        elif op.startswith("queue_"):
            vals = [o["queue"]]
            target = getattr(mb, op)
        elif op == "store_bucket":
            b = ArgsBucket(data=f"pl{o['mid']}")
            codes.reg(b)
            vals = [f"b{o['mid']}", b]
            target = bb.store_bucket
        elif op in ("get_bucket", "delete_bucket"):
            vals = [f"b{o['mid']}"]
            target = getattr(bb, op)
        else:   # consume
            if "q1" not in mb.queues:
                await InMemoryMessageBroker.queue_declare(mb, "q1")      # plain function: not wrapped, not logged
            cons = mb.get_consumer(o["queue"] if o["queue"] in mb.queues else "q1", None)
            if o["started"]:
                await cons.start()
            orig = type(cons).consume

            vals = []
            target = cons.consume
            consumers[id(cons)] = cons
        names = PARAMS[op]
        pos, kw = vals[:o["npos"]], dict(zip(names[o["npos"]:], vals[o["npos"]:]))
        n0 = len(log)
        try:
            if op == "consume":
                r = await asyncio.wait_for(target(), consume_timeout)
                log.append(("eff", OPC[op], o["conn"], codes.of(r)))
                # the effect of consume is logged here (after its after-signal): moved in front of the after signals below
                evs = log[n0:]
                eff = evs.pop()
                k = next((i for i, e in enumerate(evs) if e[0] != "eff" and e[1] == after_of("consume")), len(evs))
                log[n0:] = evs[:k] + [eff] + evs[k:]
            else:
                r = await target(*pos, **kw)
            out = ("ret", codes.of(r))
        except asyncio.TimeoutError:
            out = ("raise", 1)
        except Exception as e:  # noqa: BLE001
            out = ("raise", 1)
        outcomes.append(out)
        trees.append({"op": op, "conn": o["conn"], "pos": [codes.of(v) for v in pos],
                      "kw": [(PN[n], codes.of(v)) for n, v in kw.items()], "params": [PN[n] for n in names], "out": out,
                      "log_range": (n0, len(log))})
    # final state
    state = []
    for cn, (conn, mb, bb) in conns.items():
        for qn in sorted(mb.queues):
            dq = mb.queues[qn]
            state.append((cn, qn, dq.simple.qsize(), len(dq.delayed), len(dq.dead), len(dq.processing)))
        state.append((cn, sorted(bb._InMemoryBucketBroker__storage)))
    return {"log": log, "trees": trees, "outcomes": outcomes, "state": state, "codes": codes}


def enc_log(log: list, codes: Codes) -> list[int]:
    """signals of one emit are sorted by subscriber id (sync subscribers log from threads)"""
    out, group = [], []

    def flush():
        for sid, sg, kw in sorted(group, key=lambda e: e[0]):
            items = sorted((PN[n], codes.of(v)) for n, v in kw.items() if True)
            out.extend([1, sid, sg, len(items)] + [x for kv in items for x in kv])
        group.clear()

    for e in log:
        if e[0] == "eff":
            flush()
            out.extend([2, e[1], e[2], e[3]])
        else:
            if group and group[-1][1] != e[1]:
                flush()
            group.append(e)
    flush()
    return out


def tree_term(t: dict, children: str = "[]") -> str:
    out = f"(ORet {ct.Z(t['out'][1])})" if t["out"][0] == "ret" else f"(ORaise {ct.Z(t['out'][1])})"
    return (f"(Node {OPC[t['op']]} (Some {t['conn']}) {ct.zlist(t['pos'])} {ct.lst(f'({a}, {ct.Z(b)})' for a, b in t['kw'])} "
            f"{ct.zlist(t['params'])} {children} {out})")


# ------------------------------------------------------------------ (b) deliveries through workers of two connections
def gen_delivery(rng) -> dict:
    d = _gen_delivery(rng)
    if d["ending"] == "eager_result_ack":
        d["result"] = True            # set_result is refused (ValueError) when the job does not store results
    return d


def _gen_delivery(rng) -> dict:
    return {"kind": "delivery", "n_conn": 2, "run_conn": rng.choice([1, 1, 2]),
            "ending": rng.choice(["return", "raise", "eager_ack", "eager_nack", "eager_result_ack"]),
            "retries": rng.choice([0, 1]), "result": rng.random() < 0.6, "order": rng.choice(["12", "21"]),
            "subs": gen_subs(rng, 2, ["actor_run", "actor_run", "ack", "nack", "requeue", "store_bucket"])}


async def run_delivery(case: dict, with_subs: bool) -> dict:
    from repid import BasicConverter, MessageDependency
    from ..world import MemMessage, Router, World, key as mkkey
    log: list = []
    codes = Codes()
    worlds = {1: World(results=True, args=False), 2: World(results=True, args=False)}
    if with_subs:
        for sp in case["subs"]:
            fn = make_subscriber(sp, log, codes)
            mw = worlds[sp["conn"]].conn.middleware
            (mw.add_middleware if sp["method"] else mw.add_subscriber)(fn)
    ending = case["ending"]

    async def act(m: MessageDependency, x: int = 0):
        if ending == "raise":
            raise ValueError("boom")
        if ending == "eager_result_ack":
            m.set_result(41)
        if ending.startswith("eager"):
            await (m.nack() if ending == "eager_nack" else m.ack())
        return 7

    routers, workers = {}, {}
    for cn in (1, 2):
        r = Router()
        r.actor(act, name="act", queue="q", converter=BasicConverter)
        routers[cn] = r
        await worlds[cn].declare("q")
    # both connections alive at once; the processors (runners) are created when run() is called
    rc = case["run_conn"]
    p = mk_params(ts=CLOCK.now_us(), max_amount=case["retries"], result=("rid", None) if case["result"] else None)
    k = mkkey("m1", "act", "q")
    for cn in (1, 2):
        worlds[cn].mb.queues["q"].simple.put_nowait(MemMessage(mkkey("m1", "act", "q") if cn != rc else k, '{"x": 1}', p))
    order = [int(c) for c in case["order"]]
    results = {}
    for cn in order:
        w = worlds[cn].worker([routers[cn]], messages_limit=1, tasks_limit=1, graceful_shutdown_time=5.0, auto_declare=False)
        workers[cn] = w
    # run them one after the other in the given order, but create BOTH runners before the first delivery is processed:
    # Worker.run() creates its runner first thing, so start both and let the one of `rc` be observed
    n_before = len(log)
    tasks = [asyncio.ensure_future(workers[cn].run()) for cn in order]
    await asyncio.wait_for(asyncio.gather(*tasks, return_exceptions=True), 20)
    await asyncio.sleep(0.01)
    # what the broker of rc saw for m1
    ev = worlds[rc].log.events
    terms = [(e["op"], e["ok"]) for e in ev if e["kind"] == "broker" and e["op"] in ("ack", "nack", "requeue", "reject")]
    stores = [e for e in ev if e["kind"] == "store" and e["role"] == "results"]
    return {"log": log, "codes": codes, "terminal": terms, "stores": len(stores),
            "places": {cn: worlds[cn].place_of("q", "m1") for cn in (1, 2)}}


def delivery_expect(case: dict) -> list:
    """Signals each connection must see for its own delivery (model-free): list of (conn, signal_code)."""
    out = []
    ending = case["ending"]
    for cn in (1, 2):
        seq = [before_of("actor_run"), after_of("actor_run")]
        if not ending.startswith("eager"):
            op = "ack" if ending == "return" else ("requeue" if case["retries"] > 0 else "nack")
            seq += [before_of(op), after_of(op)]
            if case["result"]:
                seq += [before_of("store_bucket"), after_of("store_bucket")]
        out.append((cn, seq))
    return out


def run(ctx: Ctx) -> Result:
    rng = ctx.rng()
    res = Result(rule=RULE)
    res.relations = ["mw_obs: ordered log of subscriber invocations (id, signal, named arguments received) and operation effects, "
                     "outcome per operation"]
    CLOCK.set(CLOCK.now_us())
    directs = [gen_direct(rng) for _ in range(ctx.scale(260, 4000))]
    deliveries = [gen_delivery(rng) for _ in range(ctx.scale(70, 1000))]
    out_d, out_plain, out_v = [], [], []

    async def main():
        asyncio.get_running_loop().set_exception_handler(lambda l, c: None)
        for c in directs:
            a, b = await run_direct_pair(c)
            out_d.append(a)
            out_plain.append(b)
        for c in deliveries:
            out_v.append((await run_delivery(c, True), await run_delivery(c, False)))

    import logging
    logging.disable(logging.CRITICAL)
    try:
        asyncio.run(main())
    finally:
        logging.disable(logging.NOTSET)
    cases = []
    for c, r, r0 in zip(directs, out_d, out_plain):
        subs = ct.lst(sub_term(s) for s in c["subs"])
        term = f"({subs}, {ct.lst(tree_term(t) for t in r['trees'])})"
        obs = []
        for t in r["trees"]:
            a, b = t["log_range"]
            obs += enc_log(r["log"][a:b], r["codes"]) + [-3] + ([0, t["out"][1]] if t["out"][0] == "ret" else [1, t["out"][1]])
        n_sig = sum(1 for e in r["log"] if e[0] != "eff")
        nontrivial = n_sig > 0 and (c["n_conn"] == 2 or any(t["out"][0] == "raise" for t in r["trees"]))
        res.add_case(term, nontrivial)
        res.count("direct_ops", len(r["trees"]))
        res.count("direct_ops_failing", sum(1 for t in r["trees"] if t["out"][0] == "raise"))
        res.count("subscriber_invocations", n_sig)
        res.count("subscribers", len(c["subs"]))
        cases.append((term, obs))
        # noninterference: same outcomes, same effects, same final state without subscribers
        eff = [e for e in r["log"] if e[0] == "eff"]
        eff0 = [e for e in r0["log"] if e[0] == "eff"]
        if r["outcomes"] != r0["outcomes"] or eff != eff0 or r["state"] != r0["state"]:
            res.failures.append(Failure("subscribers_interfere", "results / effects / broker state differ with and without subscribers",
                                        {"case": c}, {"with": r["outcomes"], "without": r0["outcomes"]}))
        # model-free oracle on the signal log
        for t in r["trees"]:
            a, b = t["log_range"]
            sigs = [e for e in r["log"][a:b] if e[0] != "eff"]
            spec_by_id = {s["sid"]: s for s in c["subs"]}
            for sid, sg, kw in sigs:
                s = spec_by_id[sid]
                if s["conn"] != t["conn"]:
                    res.failures.append(Failure("signal_to_wrong_connection", f"subscriber {sid} of connection {s['conn']} received a signal of an operation of connection {t['conn']}", {"case": c}, None))
                if sg not in (before_of(t["op"]), after_of(t["op"])):
                    res.failures.append(Failure("signal_of_other_operation", f"signal {sg} during {t['op']}", {"case": c}, None))
                if sg == after_of(t["op"]) and t["out"][0] == "raise":
                    res.failures.append(Failure("after_signal_on_failure", f"after-signal of a failed {t['op']}", {"case": c}, None))
            for s in c["subs"]:
                if s["conn"] != t["conn"]:
                    continue
                for when, code in (("before", before_of(t["op"])), ("after", after_of(t["op"]))):
                    if s["signal_code"] != code:
                        continue
                    available = set(PARAMS[t["op"]][:len(t["pos"])]) | {n for n, cde in PN.items() if cde in [k for k, _ in t["kw"]]}
                    if when == "after":
                        available |= {"result"}
                    accepted = {n for n, _ in s["params"]}
                    required = {n for n, d in s["params"] if not d} | {n for n, d in s["kwonly"] if not d}
                    should_run = required <= (available & accepted) and not (when == "after" and t["out"][0] == "raise")
                    n_runs = sum(1 for e in sigs if e[0] == s["sid"] and e[1] == code)
                    if n_runs != (1 if should_run else 0):
                        res.failures.append(Failure("signal_count", f"subscriber {s['sid']} ({s['signal']}) ran {n_runs} times during one {t['op']}, expected {int(should_run)}", {"case": c}, None))
    for c, (r, r0) in zip(deliveries, out_v):
        res.add_case(repr(c), True)
        res.count("deliveries")
        if r["terminal"] != r0["terminal"] or r["stores"] != r0["stores"] or r["places"] != r0["places"]:
            res.failures.append(Failure("subscribers_interfere", "disposition / stores / places differ with and without subscribers", {"case": c}, None))
        spec_by_id = {s["sid"]: s for s in c["subs"]}
        # per connection: the signals its subscribers saw, in order, must be a projection of that connection's own delivery
        for cn, seq in delivery_expect(c):
            for s in c["subs"]:
                if s["conn"] != cn:
                    continue
                runs = [e for e in r["log"] if e[0] == s["sid"]]
                accepted = {n for n, _ in s["params"]}
                required = {n for n, d in s["params"] if not d} | {n for n, d in s["kwonly"] if not d}
                op = s["signal"].split("_", 1)[1]
                available = set(PARAMS[op]) | ({"result"} if s["signal"].startswith("after") else set())
                want = seq.count(s["signal_code"]) if required <= (available & accepted) else 0
                if len(runs) != want:
                    kind = "actor_run_signal_to_wrong_connection" if op == "actor_run" else "signal_count"
                    res.failures.append(Failure(kind, f"delivery on both connections ({c['ending']}): subscriber {s['sid']} "
                                                f"({s['signal']}) of connection {cn} ran {len(runs)} times, expected {want}", {"case": c}, None))
    res.samples = [{"coq": cases[0][0][:1200], "impl_obs": cases[0][1][:80]}]
    bad, mo = runmodel.run_cases("c17", "Mw", "mw_obs", cases, shard=150)
    for i in bad:
        res.mismatches.append({"relation": "mw_obs", "case": directs[i], "coq": cases[i][0][:4000], "impl_obs": cases[i][1][:300],
                               "model_obs": (mo.get(i) or [])[:300]})
    res.model_cases += len(cases)
    res.traces_validated += len(cases) - len(bad)
    # de-duplicate failures by kind
    seen, uniq = set(), []
    for f in res.failures:
        if f.kind not in seen:
            seen.add(f.kind)
            uniq.append(f)
    res.failures = uniq
    # ... and on the Redis / RabbitMQ consumers, whose hand-over to a cancelled caller is what subscribers of the consume signals stretch
    from . import _handover
    _handover.check_subscribers(ctx, res)
    return res


def replay(ctx: Ctx, rp: dict) -> dict:
    outer = rp.get("case") or rp.get("first_diverging_case", {})
    if "handover_run" in outer:
        from . import _handover
        from ..vloop import run_virtual
        import repid.connections.redis.utils as ru
        h = outer["handover_run"]
        ru.random.random = lambda: 0.8
        out: dict = {}

        async def hmain(loop):
            loop.set_exception_handler(lambda l, c: None)
            runner = _handover.one_run_rabbit if h["scenario"]["name"].startswith("rabbit") else _handover.one_run
            r = await runner(loop, h["scenario"], h["k"], h["c"])
            final = r["snaps"][-1]
            out.update({"snapshots (phase, call, late, custody per message, expired per message)": r["snaps"], "custody_names": _handover.NAMES,
                        "err": r["err"], "late": r["late"],
                        "left_behind": {i: cu for i, cu in zip(r["ids"], final[3])
                                        if cu not in (_handover.Q, _handover.DEAD, _handover.CALLER) and not (cu == _handover.UND and r["late"])}})
        run_virtual(hmain)
        out["fails"] = bool(out["err"] or out["left_behind"])
        return out
    case = outer.get("case")
    CLOCK.set(CLOCK.now_us())
    import logging
    logging.disable(logging.CRITICAL)
    if case["kind"] == "delivery":
        r = asyncio.run(run_delivery(case, True))
        return {"log": [(e[0], e[1]) for e in r["log"]], "terminal": r["terminal"], "fails": True}
    r, r0 = asyncio.run(run_direct_pair(case))
    eff = [e for e in r["log"] if e[0] == "eff"]
    eff0 = [e for e in r0["log"] if e[0] == "eff"]
    return {"log": [tuple(e[:3]) if e[0] == "eff" else (e[0], e[1]) for e in r["log"]], "outcomes": r["outcomes"],
            "outcomes_without_subscribers": r0["outcomes"],
            "fails": r["outcomes"] != r0["outcomes"] or eff != eff0 or r["state"] != r0["state"]}
