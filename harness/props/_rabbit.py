"""RabbitMQ client over FakeAmqp: generator of sequential histories, model comparison (RabbitBroker.v) and oracles."""
from __future__ import annotations

from .. import memrun, rabbitrun, runmodel
from ..common import Failure
from ..vloop import run_virtual

S = 1_000_000
DAY = 86400 * S


def gen_hist(rng, n_ops: int, focus: str = "any") -> dict:
    ops: list[dict] = [{"op": "declare", "q": 1}]
    two_q = rng.random() < 0.25
    if two_q:
        ops.append({"op": "declare", "q": 2})
    n_c = rng.choice([1, 1, 2, 3]) if focus != "fifo" else 1
    cons = {}
    for c in range(1, n_c + 1):
        cat = 0 if c == 1 or rng.random() < 0.6 else rng.choice([1, 2])
        topics = rng.choice([None, None, [1, 2], [1]]) if focus != "fifo" else rng.choice([None, [1, 2]])
        mx = rng.choice([None, 1, 2, 3, 5])
        q = 2 if (two_q and c == n_c and rng.random() < 0.5) else 1
        cons[c] = (q, cat, topics, mx)
    started = set()
    for c, (q, cat, topics, mx) in cons.items():
        if rng.random() < 0.8:
            ops.append({"op": "consumer", "c": c, "q": q, "cat": cat, "topics": topics, "max": mx})
            started.add(c)
    nid = 1
    paused: set = set()

    def spec_put():
        sp: dict = {}
        r = rng.random()
        if focus == "fifo":
            if r < 0.25:
                sp["next"] = rng.choice([-S, 0, -1])          # its time has come already: immediately deliverable
            elif r < 0.32:
                sp["next"] = 6 * 3600 * S                      # parked for hours in the delayed queue
            return sp
        if focus in ("delay", "any") and r < (0.6 if focus == "delay" else 0.3):
            sp["next"] = rng.choice([-S, 0, 1, 999, 1000, 1001, 1500, 2500, 30_000, 250_000, 1_300_000, 5 * S + 7,
                                     DAY + 400_000, 2 * DAY + 600_000, 7 * DAY])
        elif focus in ("delay", "any") and r < 0.4:
            sp["by"] = rng.choice([1 * S, 10 * S])
            sp["until"] = rng.choice([None, 2000, -5])
            sp["ts"] = rng.choice([0, -1500])
        if focus in ("ttl", "any") and rng.random() < (0.6 if focus == "ttl" else 0.3):
            sp["ttl"] = rng.choice([2000, 200_000, 10 * S, DAY + S, 7 * DAY + S])
            sp["ts"] = rng.choice([0, -1000, -150_000, -S])
        return sp

    for _ in range(n_ops):
        r = rng.random()
        if r < 0.30:
            sp = spec_put()
            ops.append({"op": "put", "id": nid, "topic": rng.choice([1, 1, 2, 3]), "q": 2 if (two_q and rng.random() < 0.3) else 1,
                        "prio": rng.choice([5, 5, 5, 0, 9]) if focus != "fifo" else 5,
                        "build": (lambda now, sp=sp: memrun.build_params(sp, now))})
            nid += 1
        elif r < 0.52 and started:
            ops.append({"op": "take", "c": rng.choice(sorted(started))})
        elif r < 0.70:
            sp = spec_put()
            ops.append({"op": "terminal", "respec": (lambda now, sp=sp: memrun.build_params(sp, now)),
                        "kinds": None if focus != "fifo" else ["ack", "reject", "reject"]})
        elif r < 0.74 and started and focus != "fifo":
            c = rng.choice(sorted(started))
            if c in paused:
                ops.append({"op": "unpause", "c": c})
                paused.discard(c)
            else:
                ops.append({"op": "pause", "c": c})
                paused.add(c)
        elif r < 0.78 and started:
            c = rng.choice(sorted(started))
            ops.append({"op": "finish", "c": c})
            started.discard(c)
            paused.discard(c)
        elif r < 0.82 and len(started) < len(cons):
            c = rng.choice(sorted(set(cons) - started))
            q, cat, topics, mx = cons[c]
            ops.append({"op": "consumer", "c": c, "q": q, "cat": cat, "topics": topics, "max": mx})
            started.add(c)
        else:
            ops.append({"op": "tick", "d": rng.choice([0, 1, 500, 1000, 2500, 50_000, 100_000, 150_000, 1 * S, 2 * S + 3, 6 * S])})
    return {"ops": ops, "rng": rng, "consumers": cons}


def run_hists(hists: list) -> list:
    outs = []

    async def main(loop):
        loop.set_exception_handler(lambda l, c: None)
        for h in hists:
            loop.max_iterations = loop.iteration + 3_000_000
            outs.append(await rabbitrun.run_history(h, loop))

    run_virtual(main)
    return outs


def compare(tag: str, outs: list):
    cases = [(o["term"], o["obs"]) for o in outs]
    return runmodel.run_cases(tag, "Sched AmqpSrv RabbitBroker", "rabbit_case", cases, shard=60)


# ---------------- oracles (model-free: the fake server's contents and what consume() returned) ----------------
def zones(pl: list) -> list:
    return [p[3] for p in pl]


def oracle(hist: dict, r: dict, which: set) -> list:
    from . import _mem
    bad = []
    cons = hist["consumers"]
    live, due, expiry, info, origin = {}, {}, {}, {}, {}
    via_dead: set = set()
    arrival, n_arr = {}, 0
    normal_consumers = {}
    started: dict = {}
    prev = {}
    for n, e in enumerate(r["trace"]):
        st = e["state"]
        places = st["places"]
        op = e["op"]
        t = e["t"] + (e.get("d") or 0)          # the state recorded is the one at the END of the op
        where = {"step": n, "op": {k: v for k, v in e.items() if k in ("op", "t", "c", "id", "delivered", "d", "methods")}}
        if op == "consumer":
            started[e["c"]] = cons[e["c"]]
        elif op == "finish":
            started.pop(e["c"], None)
        if op in ("put", "requeue"):
            i = e["id"]
            live[i] = 1
            due[i] = _mem.due_of(e["params"], t)
            expiry[i] = _mem.expiry_of(e["params"])
            info[i] = (e["q"], e["topic"], e["prio"])
            via_dead.discard(i)
            arrival.pop(i, None)
            want = "delayed" if (due[i] is not None and due[i] > t) else "normal"
            if want == "normal":
                arrival[i] = n_arr
                n_arr += 1
            if "C01" in which:
                z = zones(places.get(i, []))
                if z != [want] and not (z == ["dead"] and expiry[i] is not None and expiry[i] < t):
                    bad.append((f"rabbit_{op}_wrong_place", f"message {i} is in {places.get(i)}, expected the {want} queue", where))
        elif op == "ack":
            live[e["id"]] = 0
        elif op == "nack":
            i = e["id"]
            if i in via_dead and "C01" not in which:
                live[i] = len(places.get(i, []))
            elif i in via_dead:
                if not places.get(i):
                    bad.append(("rabbit_nack_from_dead_queue_drops", f"message {i}, taken through the DEAD category and nacked, is in no place: "
                                "<q>:dead has no dead-letter target", where))
                    live[i] = 0
            elif origin.get(i) == "delayed":
                if "C01" in which and zones(places.get(i, [])) != ["dead"]:
                    bad.append(("rabbit_nack_from_delayed_queue_promotes", f"message {i}, taken through the DELAYED category and nacked, is in "
                                f"{places.get(i)}: the dead-letter target of <q>:delayed is <q> itself", where))
                if "C05" in which and due.get(i) is not None and t < due[i] and zones(places.get(i, [])) == ["normal"]:
                    bad.append(("rabbit_nack_from_delayed_queue_promotes", f"message {i}, due at {due[i]}, taken through the DELAYED category "
                                f"and nacked at {t}, is now in the normal queue before its time", where))
                due[i] = None                # from here on it is an ordinary waiting message (that is the finding)
                origin[i] = "delayed"
            elif "C01" in which and zones(places.get(i, [])) != ["dead"]:
                bad.append(("rabbit_nack_not_dead_lettered", f"after nack message {i} is in {places.get(i)}", where))
        elif op == "reject":
            i = e["id"]
            o = origin.get(i, "normal")
            z = zones(places.get(i, []))
            ok = z == [o] or (o == "delayed" and z == ["normal"] and due.get(i) is not None and due[i] <= t) \
                or (o == "normal" and z == ["dead"] and expiry.get(i) is not None and expiry[i] < t)
            if "C01" in which and not ok:
                bad.append(("rabbit_reject_not_to_origin", f"taken from {o}, after reject in {places.get(i)}", where))
            if z == ["normal"]:
                arrival[i] = -1 - n
        elif op == "take" and e["delivered"]:
            i = e["delivered"]
            c = e["c"]
            q, cat, topics, mx = cons[c]
            origin[i] = ("normal", "delayed", "dead")[cat]
            if cat == 2:
                via_dead.add(i)
            if "C14" in which and i in e.get("held_before", {}):
                bad.append(("rabbit_delivered_while_held", f"message {i} handed to consumer {c} while consumer {e['held_before'][i]} holds it", where))
            if cat == 0:
                if "C05" in which and due.get(i) is not None and t < due[i]:
                    bad.append(("rabbit_delivered_early", f"message {i} due at {due[i]} handed to a normal consumer at {t} ({(due[i] - t)} us early)", where))
                if "C12" in which and expiry.get(i) is not None and t > expiry[i]:
                    bad.append(("rabbit_expired_delivered", f"message {i} expired at {expiry[i]} handed out at {t}", where))
                if "C11" in which and topics is not None and info[i][1] not in topics:
                    bad.append(("rabbit_foreign_topic_delivered", f"consumer with topics {topics} received topic {info[i][1]}", where))
                if "C11" in which and info[i][0] != q:
                    bad.append(("rabbit_foreign_queue_delivered", f"consumer of queue {q} received a message of queue {info[i][0]}", where))
        # state predicates after every op
        if "C01" in which or "C14" in which:
            for i, want in live.items():
                k = len(places.get(i, []))
                if k > want:
                    bad.append(("rabbit_message_duplicated", f"message {i} is in {places.get(i)}", where))
                elif k < want and not (op == "nack" and e["id"] == i):
                    bad.append(("rabbit_message_lost", f"message {i} is in no place", where))
        if "C05" in which:
            for i, pl in places.items():
                if zones(pl) == ["normal"] and due.get(i) is not None and t < due[i] and origin.get(i) != "delayed":
                    bad.append(("rabbit_waiting_before_due", f"message {i} due at {due[i]} is in the normal queue (or delivered from it) at {t}", where))
        if "C12" in which:
            for i, pl in places.items():
                was = prev.get(i)
                if zones(pl) == ["dead"] and was and zones(was) != ["dead"] and op not in ("nack",):
                    if expiry.get(i) is None or t <= expiry[i]:
                        bad.append(("rabbit_live_message_dead_lettered", f"message {i} (expiry {expiry.get(i)}) went to the dead-letter queue during {op} at {t}", where))
        prev = places
    return bad


def fifo_oracle(hist: dict, r: dict) -> list:
    """C15 for histories of the `fifo` focus (one consumer, one priority): among the messages that are immediately deliverable
    when enqueued, of a topic the consumer serves, and that were never returned, the consumer's takes follow the order of
    enqueue - a later one is never handed out while an earlier one is still waiting."""
    from . import _mem
    bad = []
    cons = hist["consumers"]
    order: dict = {}
    topic: dict = {}
    excluded: set = set()
    delivered: set = set()
    n_put = 0
    for n, e in enumerate(r["trace"]):
        if e["op"] == "put":
            d = _mem.due_of(e["params"], e["t"])
            if d is None or d <= e["t"]:
                order[e["id"]] = n_put
                topic[e["id"]] = (e["topic"], e["q"])
                if _mem.expiry_of(e["params"]) is not None:
                    excluded.add(e["id"])
            n_put += 1
        elif e["op"] in ("reject", "requeue", "nack", "ack"):
            excluded.add(e["id"])
        elif e["op"] == "finish":
            excluded |= set(order)            # everything buffered goes back: places are lost legitimately
        elif e["op"] == "take" and e["delivered"]:
            j, c = e["delivered"], e["c"]
            delivered.add(j)
            if j in excluded or j not in order:
                continue
            topics = cons[c][2]
            for i, oi in order.items():
                if oi < order[j] and i not in delivered and i not in excluded and topic[i][1] == cons[c][0] and \
                        (topics is None or topic[i][0] in topics):
                    bad.append(("rabbit_overtaken", f"consumer {c} received message {j} (enqueue #{order[j]}) while message {i} "
                                f"(enqueue #{oi}, deliverable at once, never returned) is still waiting: {e['state']['places'].get(i)}",
                                {"step": n}))
                    break
    return bad


# ---------------- recorded findings: deterministic scenarios replayed on the real client on every run ----------------
def _build(spec):
    return lambda now, spec=spec: memrun.build_params(spec, now)


def finding_scenarios() -> dict:
    return {
        "rabbit_delayed_head_of_line": {"ops": [
            {"op": "declare", "q": 1}, {"op": "consumer", "c": 1, "q": 1, "cat": 0, "topics": None, "max": None},
            {"op": "put", "id": 1, "topic": 1, "q": 1, "prio": 5, "build": _build({"next": 5 * S})},
            {"op": "put", "id": 2, "topic": 1, "q": 1, "prio": 5, "build": _build({"next": 1 * S})},
            {"op": "tick", "d": 2 * S}, {"op": "take", "c": 1}, {"op": "tick", "d": 3 * S}, {"op": "take", "c": 1}, {"op": "take", "c": 1}],
            "consumers": {1: (1, 0, None, None)}},
        "rabbit_foreign_head_of_line": {"ops": [
            {"op": "declare", "q": 1}, {"op": "consumer", "c": 1, "q": 1, "cat": 0, "topics": [1], "max": 1},
            {"op": "put", "id": 1, "topic": 2, "q": 1, "prio": 5, "build": _build({})},
            {"op": "put", "id": 2, "topic": 1, "q": 1, "prio": 5, "build": _build({})},
            {"op": "tick", "d": 3 * S}, {"op": "take", "c": 1}],
            "consumers": {1: (1, 0, [1], 1)}},
        "rabbit_nack_from_dead_queue_drops": {"ops": [
            {"op": "declare", "q": 1}, {"op": "consumer", "c": 1, "q": 1, "cat": 0, "topics": None, "max": None},
            {"op": "consumer", "c": 2, "q": 1, "cat": 2, "topics": None, "max": None},
            {"op": "put", "id": 1, "topic": 1, "q": 1, "prio": 5, "build": _build({})},
            {"op": "take", "c": 1}, {"op": "nack", "id": 1, "q": 1}, {"op": "take", "c": 2}, {"op": "nack", "id": 1, "q": 1}],
            "consumers": {1: (1, 0, None, None), 2: (1, 2, None, None)}},
    }


def check_findings(res, which_props: set) -> None:
    """Each recorded finding is reproduced on the real client (and compared with the model like any other history)."""
    sc = finding_scenarios()
    hists = [dict(h, rng=None) for h in sc.values()]
    outs = run_hists(hists)
    for (kind, h), r in zip(sc.items(), outs):
        tr = r["trace"]
        if kind == "rabbit_delayed_head_of_line" and "C05" in which_props:
            takes = [e["delivered"] for e in tr if e["op"] == "take"]
            if takes[0] == 0 and 2 in tr[5]["state"]["places"] and tr[5]["state"]["places"][2][0][0] == "delayed":
                res.failures.append(Failure(kind, "message 2, due 1 s after its enqueue, is still in the delayed queue 2 s after it, behind message 1 "
                                            "(due after 5 s), with a free consumer listening: per-message TTLs run out at the head of the queue only; "
                                            f"takes at 2 s / 5 s / 5 s returned {takes}", {"rabbit_scenario": kind}, None))
        if kind == "rabbit_foreign_head_of_line" and "C11" in which_props:
            st = tr[-1]["state"]
            if tr[-1]["delivered"] == 0 and [p[0] for p in st["places"].get(2, [])] == ["ready"]:
                n_del = sum(1 for x in r["world"].srv.log if x[0] == "deliver" and x[4] == "m1")
                res.failures.append(Failure(kind, "consumer with topics [t1] and prefetch 1: the foreign message at the head was delivered, "
                                            f"rejected after 0.1 s and delivered again {n_del} times in 3 s; message 2 (topic t1) behind it is still waiting",
                                            {"rabbit_scenario": kind}, None))
        if kind == "rabbit_nack_from_dead_queue_drops" and "C01" in which_props:
            if not tr[-1]["state"]["places"].get(1):
                res.failures.append(Failure(kind, "message 1, dead-lettered, taken through the DEAD category and nacked again, is in no place: "
                                            "<q>:dead has no dead-letter target, basic.nack(requeue=False) discards it", {"rabbit_scenario": kind}, None))
    if "C11" in which_props:
        for what in same_id_runs()[:1]:
            res.failures.append(Failure("rabbit_same_id_foreign_and_own", what, {"rabbit_scenario": "same_id_runs"}, None))
    if "C01" in which_props:
        gap = requeue_cut()
        if gap is not None:
            res.failures.append(Failure("rabbit_requeue_not_atomic", f"requeue() cancelled after {gap} loop iterations: basic.ack has been applied, "
                                        "basic.publish has not - the message is in no queue and unacknowledged by nobody (requeue = ack, then enqueue)",
                                        {"rabbit_scenario": "requeue_cut", "cut_after_iterations": gap}, None))
    return outs


def same_id_runs() -> list:
    """A foreign and an own message that carry the SAME message id (RabbitMQ does not make ids unique; `Job(id_=...)` lets
    the caller choose) overlap on one consumer, in both orders: the own one is taken and acked - afterwards it must be
    gone and the foreign one must still be there (ready or on its reject cycle), whichever came first."""
    import asyncio
    import json
    from ..fakeamqp import ISSUER
    from ..world import key
    problems = []

    async def main(loop):
        for order in ("foreign_first", "own_first"):
            w = rabbitrun.RabbitWorld()
            tok = ISSUER.set(("api",))
            try:
                await w.mb.queue_declare("q1")
                cons = w.mb.get_consumer("q1", ["t1"], None)
                await cons.start()
                p = memrun.build_params({}, rabbitrun.CLOCK.now_us())
                msgs = [("t2", "foreign"), ("t1", "own")]
                if order == "own_first":
                    msgs.reverse()
                for topic, payload in msgs:
                    await w.mb.enqueue(key("m1", topic, "q1", 5), payload, p)
                await w.settle()
                got = await asyncio.wait_for(cons.consume(), 1.0)
                if got[1] != "own":
                    problems.append(f"{order}: consume() returned payload {got[1]!r}")
                await w.mb.ack(got[0])
                await w.settle()
                await asyncio.sleep(0.25)
                await w.settle()
            finally:
                ISSUER.reset(tok)
            there = [json.loads(m["body"])["payload"] for l in w.srv.queues.values() for m in l] + \
                    [json.loads(u["msg"]["body"])["payload"] for u in w.srv.unacked]
            if "own" in there:
                problems.append(f"{order}: the own message was acked by its holder and is still on the server ({there})")
            if "foreign" not in there:
                problems.append(f"{order}: the foreign message is gone from the server (acknowledged or dropped by a consumer that has no actor for it)")
            n_rej = sum(1 for x in w.srv.log if x[0] == "method" and x[3] == "reject")
            if n_rej < 2:
                problems.append(f"{order}: the foreign message is not being given back ({n_rej} rejects in 0.25 s): it stays unacknowledged on this consumer")
            cons_task = None
    run_virtual(main)
    return problems


def requeue_cut():
    """requeue() of a held message, cancelled after k loop iterations, for every k up to its completion: is there a k at
    which the message is nowhere?"""
    import asyncio
    from ..fakeamqp import ISSUER
    from ..world import key
    found = []

    async def main(loop):
        for k in range(0, 14):
            w = rabbitrun.RabbitWorld()
            tok = ISSUER.set(("api",))
            try:
                await w.mb.queue_declare("q1")
                cons = w.mb.get_consumer("q1", None, None)
                await cons.start()
                kk = key("m1", "t1", "q1", 5)
                p = memrun.build_params({}, rabbitrun.CLOCK.now_us())
                await w.mb.enqueue(kk, "p1", p)
                await w.settle()
                got = await cons.consume()
                t = asyncio.ensure_future(w.mb.requeue(got[0], "p1r1", p))
                for _ in range(k):
                    await asyncio.sleep(0)
                done_before_cut = t.done()
                t.cancel()
                try:
                    await t
                except asyncio.CancelledError:
                    pass
                await w.settle()
            finally:
                ISSUER.reset(tok)
            if not done_before_cut and not rabbitrun.w_state(w)["places"].get(1):
                found.append(k)
    run_virtual(main)
    return found[0] if found else None


def run_seq(ctx, res, tag: str, which: set, focus: str, n_quick: int, n_thorough: int, rng, fifo: bool = False) -> None:
    hists = [gen_hist(rng, rng.randint(8, 45), focus) for _ in range(ctx.scale(n_quick, n_thorough))]
    outs, ran = [], []
    for h in hists:
        async def main(loop, h=h):
            loop.set_exception_handler(lambda l, c: None)
            return await rabbitrun.run_history(h, loop)
        try:
            out, _ = run_virtual(main, max_iterations=600_000)
        except Exception as ex:  # noqa: BLE001
            kind = "rabbit_call_never_returns" if type(ex).__name__ == "VirtualDeadlock" else "rabbit_client_error"
            res.failures.append(Failure(kind, f"{type(ex).__name__}: {ex}"[:300], {"rabbit_history": jsonable(h)}, None))
            res.count("rabbit_histories_that_failed_to_run")
            continue
        outs.append(out)
        ran.append(h)
    outs += check_findings(res, which)
    ran += [dict(h, rng=None) for h in finding_scenarios().values()]
    cases = []
    for h, r in zip(ran, outs):
        tr = r["trace"]
        took = sum(1 for e in tr if e["op"] == "take" and e["delivered"])
        term = sum(1 for e in tr if e["op"] in ("ack", "nack", "reject", "requeue"))
        res.add_case("rabbit:" + r["term"], took >= 1 and term >= 1)
        res.count("rabbit_histories")
        log = r["world"].srv.log
        res.count("rabbit_methods", sum(1 for x in log if x[0] == "method"))
        res.count("rabbit_deliveries", sum(1 for x in log if x[0] == "deliver"))
        res.count("rabbit_expiries", sum(1 for x in log if x[0] == "expire"))
        res.count("rabbit_callback_rejects", sum(1 for x in log if x[0] == "method" and x[3] == "reject" and x[2] and x[2][0] == "callback"))
        res.count("rabbit_callback_nacks", sum(1 for x in log if x[0] == "method" and x[3] == "nack" and x[2] and x[2][0] == "callback"))
        res.count("rabbit_buffer_nacks", sum(1 for e in tr if e["op"] == "take" and any(m[1] == "nack" for m in e["methods"])))
        # a head expiry and the wake-up of a sleeping reject at the very same microsecond: which of the two timers fires first
        # is decided by float noise in the loop's deadlines (the model says: the server first) - such a history is not
        # compared with the model (the model-free oracles still apply)
        exp_at = {x[1] for x in log if x[0] == "expire"}
        rej_at = {x[1] for x in log if x[0] == "method" and x[3] == "reject" and x[2] and x[2][0] == "callback"}
        if exp_at & rej_at:
            res.count("rabbit_histories_with_simultaneous_timers_not_compared")
        else:
            cases.append((r["term"], r["obs"]))
        seen = set()
        fs = oracle(h, r, which) + (fifo_oracle(h, r) if fifo else [])
        for kind, what, where in fs:
            if kind not in seen:
                seen.add(kind)
                res.failures.append(Failure(kind, what, {"rabbit_history": jsonable(h), "where": where}, None))
    bad, mo = runmodel.run_cases(tag, "Sched AmqpSrv RabbitBroker", "rabbit_case", cases, shard=50)
    for i in bad:
        impl, mod = cases[i][1], (mo.get(i) or [])
        k = next((j for j in range(min(len(impl), len(mod))) if impl[j] != mod[j]), min(len(impl), len(mod)))
        res.mismatches.append({"relation": "rabbit_obs", "coq": cases[i][0][:6000], "first_difference_at": k, "op_number": impl[:k].count(-40),
                               "impl_obs": impl[max(0, k - 60):k + 40], "model_obs": mod[max(0, k - 60):k + 40]})
    res.model_cases += len(cases)
    res.traces_validated += len(cases) - len(bad)
    res.relations.append("rabbit_obs: per call of a sequential history on the RabbitMQ client over the fake server - every AMQP method "
                         "with its arguments and issuer (API call / delivery callback), what consume() returned, every queue's content, "
                         "the unacknowledged deliveries, the consumers' buffers and the delivery-tag map")


def jsonable(h: dict) -> dict:
    ops = []
    for o in h["ops"]:
        ops.append({k: v for k, v in o.items() if not callable(v)})
    return {"ops": ops, "consumers": {str(k): v for k, v in h.get("consumers", {}).items()}}


def consume_cuts(ctx, res) -> None:
    """RabbitMQ twin of _redis.consume_cuts: consume() cancelled while it nacks a message that expired in the local buffer must
    not leave it unacknowledged with its delivery tag forgotten."""
    import asyncio
    from ..clock import CLOCK
    from ..fakeamqp import ISSUER
    from ..pyparams import mk_params
    from ..world import key
    problems = []

    async def main(loop):
        loop.set_exception_handler(lambda l, c: None)
        for k in range(0, ctx.scale(20, 40)):
            w = rabbitrun.RabbitWorld()
            tok = ISSUER.set(("api",))
            try:
                await w.mb.queue_declare("q1")
                cons = w.mb.get_consumer("q1", None, None)
                now = CLOCK.now_us()
                await w.mb.enqueue(key("m1", "t1", "q1", 5), "p1", mk_params(ts=now, ttl=200_000))
                await w.mb.enqueue(key("m2", "t1", "q1", 5), "p2", mk_params(ts=now))
                await cons.start()
                await w.settle()
                await asyncio.sleep(0.5)
                t = asyncio.ensure_future(cons.consume())
                for _ in range(k):
                    await asyncio.sleep(0)
                got = None
                if t.done():
                    got = t.result()
                else:
                    t.cancel()
                    try:
                        await t
                    except asyncio.CancelledError:
                        pass
                await w.settle()
            finally:
                ISSUER.reset(tok)
            st = rabbitrun.w_state(w)
            buf = [rabbitrun.num(k_.id_) for (k_, _, _) in list(cons.queue._queue)]
            held = [rabbitrun.num(got[0].id_)] if got else []
            res.count("rabbit_consume_cut_runs")
            res.add_case(f"rabbit_consume_cut:{k}:{held}:{buf}", True)
            stuck = [i for i, p in st["places"].items() if p[0][0] == "unacked" and i not in buf and i not in held]
            lost = [i for i in (1, 2) if len(st["places"].get(i, [])) != 1]
            if stuck or lost:
                problems.append((k, stuck, lost, {i: [x[0] for x in p] for i, p in st["places"].items()}))
    run_virtual(main)
    if problems:
        k, stuck, lost, pl = problems[0]
        res.failures.append(Failure("rabbit_consume_cut_leaves_message_in_flight", f"consume() cancelled after {k} loop iterations while it was "
                                    f"dead-lettering a message that expired in the buffer: places {pl}, unacknowledged and held by nobody: {stuck}, "
                                    f"not in exactly one place: {lost}", {"rabbit_consume_cut": {"k": k}}, None))


def consume_waiting_cuts(ctx, res) -> None:
    """consume() blocked on an empty local buffer; a message is published and, j loop iterations later, the consumer is finished:
    the message ends either in the caller's hands (consume() returned it: unacknowledged, held) or back in its queue - never
    unacknowledged and in nobody's hands (C01 / C03 on the RabbitMQ client)."""
    import asyncio
    from ..clock import CLOCK
    from ..fakeamqp import ISSUER
    from ..pyparams import mk_params
    from ..world import key
    problems = []

    async def main(loop):
        loop.set_exception_handler(lambda l, c: None)
        for j in range(0, ctx.scale(14, 30)):
            w = rabbitrun.RabbitWorld()
            tok = ISSUER.set(("api",))
            try:
                await w.mb.queue_declare("q1")
                cons = w.mb.get_consumer("q1", None, None)
                await cons.start()
                await w.settle()
                t = asyncio.ensure_future(cons.consume())
                for _ in range(5):
                    await asyncio.sleep(0)
                pub = asyncio.ensure_future(w.mb.enqueue(key("m1", "t1", "q1", 5), "p1", mk_params(ts=CLOCK.now_us())))
                for _ in range(j):
                    await asyncio.sleep(0)
                await cons.finish()
                await pub
                await w.settle()
                got = None
                if t.done() and not t.cancelled():
                    try:
                        got = t.result()
                    except Exception:  # noqa: BLE001
                        pass
                else:
                    t.cancel()
                    try:
                        await t
                    except asyncio.CancelledError:
                        pass
                await asyncio.sleep(0.15)          # a delivery that found the consumer finished is rejected 0.1 s later
                await w.settle()
            finally:
                ISSUER.reset(tok)
            pl = rabbitrun.w_state(w)["places"].get(1, [])
            held = got is not None
            res.count("rabbit_consume_waiting_cut_runs")
            res.add_case(f"rabbit_consume_waiting:{j}:{held}:{[p[0] for p in pl]}", True)
            if not (len(pl) == 1 and ((pl[0][0] == "unacked") == held)):
                problems.append((j, [p[0] for p in pl], held))
    run_virtual(main)
    if problems:
        j, pl, held = problems[0]
        res.failures.append(Failure("rabbit_message_lost_between_delivery_and_finish", f"consume() waiting, publish, finish() {j} loop iterations later: "
                                    f"the message is in {pl}, consume() returned it: {held} - unacknowledged and in nobody's hands, or in two places "
                                    f"({len(problems)} of the cut points fail)", {"rabbit_consume_waiting_cut": {"j": j}}, None))
