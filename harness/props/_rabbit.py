"""RabbitMQ client over FakeAmqp: generator of sequential histories, model comparison (RabbitBroker.v) and oracles."""
from __future__ import annotations

from .. import memrun, rabbitrun, runmodel
from ..vloop import run_virtual

S = 1_000_000


def gen_hist(rng, n_ops: int, focus: str = "any") -> dict:
    ops: list[dict] = [{"op": "declare", "q": 1}]
    two_q = rng.random() < 0.25
    if two_q:
        ops.append({"op": "declare", "q": 2})
    n_c = rng.choice([1, 1, 2, 3])
    cons = {}
    for c in range(1, n_c + 1):
        cat = 0 if c == 1 or rng.random() < 0.6 else rng.choice([1, 2])
        topics = rng.choice([None, None, [1, 2], [1]]) if focus != "fifo" else rng.choice([None, [1, 2]])
        mx = rng.choice([None, 1, 2, 3, 5])
        q = 2 if (two_q and c == n_c and rng.random() < 0.5) else 1
        cons[c] = (q, cat, topics, mx)
    started = set()
    for c, (q, cat, topics, mx) in cons.items():
        if rng.random() < 0.8:
            ops.append({"op": "consumer", "c": c, "q": q, "cat": cat, "topics": topics, "max": mx})
            started.add(c)
    nid = 1
    paused: set = set()

    def spec_put():
        sp: dict = {}
        r = rng.random()
        if focus in ("delay", "any") and r < (0.6 if focus == "delay" else 0.3):
            sp["next"] = rng.choice([-S, 0, 1, 999, 1000, 1001, 1500, 2500, 30_000, 250_000, 1_300_000, 5 * S + 7])
        elif focus in ("delay", "any") and r < 0.4:
            sp["by"] = rng.choice([1 * S, 10 * S])
            sp["until"] = rng.choice([None, 2000, -5])
            sp["ts"] = rng.choice([0, -1500])
        if focus in ("ttl", "any") and rng.random() < (0.6 if focus == "ttl" else 0.3):
            sp["ttl"] = rng.choice([2000, 200_000, 10 * S])
            sp["ts"] = rng.choice([0, -1000, -150_000, -S])
        return sp

    for _ in range(n_ops):
        r = rng.random()
        if r < 0.30:
            sp = spec_put()
            ops.append({"op": "put", "id": nid, "topic": rng.choice([1, 1, 2, 3]), "q": 2 if (two_q and rng.random() < 0.3) else 1,
                        "prio": rng.choice([5, 5, 5, 0, 9]) if focus != "fifo" else 5,
                        "build": (lambda now, sp=sp: memrun.build_params(sp, now))})
            nid += 1
        elif r < 0.52 and started:
            ops.append({"op": "take", "c": rng.choice(sorted(started))})
        elif r < 0.70:
            sp = spec_put()
            ops.append({"op": "terminal", "respec": (lambda now, sp=sp: memrun.build_params(sp, now)),
                        "kinds": None if focus != "fifo" else ["ack", "reject", "reject"]})
        elif r < 0.74 and started:
            c = rng.choice(sorted(started))
            if c in paused:
                ops.append({"op": "unpause", "c": c})
                paused.discard(c)
            else:
                ops.append({"op": "pause", "c": c})
                paused.add(c)
        elif r < 0.78 and started:
            c = rng.choice(sorted(started))
            ops.append({"op": "finish", "c": c})
            started.discard(c)
            paused.discard(c)
        elif r < 0.82 and len(started) < len(cons):
            c = rng.choice(sorted(set(cons) - started))
            q, cat, topics, mx = cons[c]
            ops.append({"op": "consumer", "c": c, "q": q, "cat": cat, "topics": topics, "max": mx})
            started.add(c)
        else:
            ops.append({"op": "tick", "d": rng.choice([0, 1, 500, 1000, 2500, 50_000, 100_000, 150_000, 1 * S, 2 * S + 3, 6 * S])})
    return {"ops": ops, "rng": rng, "consumers": cons}


def run_hists(hists: list) -> list:
    outs = []

    async def main(loop):
        loop.set_exception_handler(lambda l, c: None)
        for h in hists:
            loop.max_iterations = loop.iteration + 3_000_000
            outs.append(await rabbitrun.run_history(h, loop))

    run_virtual(main)
    return outs


def compare(tag: str, outs: list):
    cases = [(o["term"], o["obs"]) for o in outs]
    return runmodel.run_cases(tag, "Sched AmqpSrv RabbitBroker", "rabbit_case", cases, shard=60)
