"""C01 — broker operations never lose or duplicate a message (in-memory broker)."""
from ..common import Ctx, Result
from .. import memrun
from . import _mem, _redis
from . import _rabbit

RULE = ("random histories (5..60 calls) of enqueue / consume (1-3 consumers concurrently, virtual-time timeouts) / ack / nack / "
        "reject / requeue / finish+start / clock advances over 1-2 queues, 3-5 consumers of all three categories with topic "
        "filters, delays and ttl on both sides of the clock; ~13% of the calls are cancelled after 0..5 event-loop iterations "
        "(real task.cancel()); terminal actions only on held messages; distinct by the printed Coq op list; non-trivial = the "
        "history contains a delivery and a terminal action or finish")
TRUSTED = ["in-memory broker: histories with concurrency and cancellation; Redis client: one client doing one call at a time over "
           "harness/fakeredis.py, whose command semantics are those of coq/RedisSrv.v (compared on every recorded command stream) "
           "and are trusted as a description of the real server; the RabbitMQ client is not covered"]
ASSUMPTIONS = ["clients are well-behaved (fresh ids on enqueue, terminal actions by the holder on held messages)"]
WHICH = {"C01"}


def run(ctx: Ctx) -> Result:
    rng = ctx.rng()
    res = Result(rule=RULE)
    res.relations = ["mem_obs: delivered id per poll, abstract state after every call, full messages at the end"]
    hists = [memrun.gen_history(rng, n_ops=rng.randint(5, 60)) for _ in range(ctx.scale(700, 12000))]
    _mem.run_histories(ctx, res, "c01", hists, WHICH, rng)
    # the Redis client over the fake server: sequential histories, whole command/reply stream against RedisBroker.v
    _redis.run_seq(ctx, res, "c01r", {"C01"}, "any", 150, 3000, rng)
    _rabbit.run_seq(ctx, res, "c01q", {"C01"}, "any", 120, 2500, rng)
    _rabbit.consume_waiting_cuts(ctx, res)
    _mem.consume_cancel_cuts(ctx, res)
    return res


def replay(ctx: Ctx, rp: dict) -> dict:
    return _mem.replay_history(ctx, rp, WHICH)
