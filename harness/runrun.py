"""Runs a real Worker in virtual time with generic asyncio probes and turns what happened into the event alphabet of
Runner.v (EvDeliver / EvAcquireFast / EvPause / EvUnpause / EvSpawn / EvSurplus / EvRejected / EvTaskDone / EvStop /
EvCancelLoop / EvEnqueue).  Probes: asyncio.Semaphore.acquire/release and asyncio.Event.set patched on the classes for the
duration of the run, task creation / cancellation / completion from the loop's task factory, the recording consumer and
broker of harness.world, the harness's own actor functions.  repid internals are read only to LABEL events (which queue a
loop task serves, which message a processing task carries, which Semaphore / Event objects are the runner's)."""
import asyncio
import signal

from . import coqterm as ct
from .clock import CLOCK
from .pyparams import mk_params
from .world import MemMessage, Router, World, key

S = 1_000_000


class RecHeld(set):
    """the broker's processing set: every entry and exit of a message is an event"""

    def __init__(self, log) -> None:
        super().__init__()
        self._log = log

    def add(self, m):
        self._log.add("held_add", id=m.key.id_)
        return super().add(m)

    def remove(self, m):
        self._log.add("held_remove", id=m.key.id_)
        return super().remove(m)

    def discard(self, m):
        if m in self:
            self._log.add("held_remove", id=m.key.id_)
        return super().discard(m)


class Probes:
    def __init__(self, log) -> None:
        self.log = log
        self._orig = None

    def __enter__(self):
        log = self.log
        o_acq, o_rel, o_set = asyncio.Semaphore.acquire, asyncio.Semaphore.release, asyncio.Event.set
        self._orig = (o_acq, o_rel, o_set)

        async def acquire(sem):
            log.add("sem_acquire", sem=id(sem), locked=sem.locked())
            return await o_acq(sem)

        def release(sem):
            log.add("sem_release", sem=id(sem))
            return o_rel(sem)

        def set_(ev):
            if not ev.is_set():
                log.add("event_set", ev=id(ev))
            return o_set(ev)

        asyncio.Semaphore.acquire, asyncio.Semaphore.release, asyncio.Event.set = acquire, release, set_
        return self

    def __exit__(self, *exc):
        asyncio.Semaphore.acquire, asyncio.Semaphore.release, asyncio.Event.set = self._orig
        return False


async def run_scenario(sc: dict, loop) -> dict:
    """sc: limit, M (or None), queues [q..], jobs [{id, queue, dur(us), at(us, arrival offset; 0 = before start), fail}],
    stop_at (us, virtual offset at which SIGINT is sent; None = rely on M), graceful (s)."""
    from repid import BasicConverter
    world = World(results=any(j.get("result") for j in sc["jobs"]), args=False)
    log = world.log
    qs = sc["queues"]
    await world.declare(*[f"q{q}" for q in qs])
    for q in qs:
        world.mb.queues[f"q{q}"].processing = RecHeld(log)
    world.mb.round_trip = sc.get("round_trip", 0.0)
    world.mb.pause_round_trip = sc.get("pause_round_trip", 0.0)
    durs = {j["id"]: j for j in sc["jobs"]}
    running = {"n": 0, "max": 0}

    async def act(jid: int) -> int:
        running["n"] += 1
        running["max"] = max(running["max"], running["n"])
        log.add("actor_start", jid=jid, running=running["n"])
        try:
            d = durs[jid]["dur"]
            if d:
                await asyncio.sleep(d / 1_000_000)
            if durs[jid].get("fail"):
                raise ValueError("job fails")
            if durs[jid].get("cancelled"):
                # the invocation ends CANCELLED (the actor awaits something that somebody else cancelled): not an Exception
                f = asyncio.get_running_loop().create_future()
                f.cancel()
                await f
            return jid
        finally:
            running["n"] -= 1
            log.add("actor_end", jid=jid)

    from datetime import timedelta
    router = Router()
    for q in qs:
        router.actor(act, name=f"a{q}", queue=f"q{q}", converter=BasicConverter,
                     retry_policy=lambda retry_number=1: timedelta(seconds=sc.get("backoff_s", 3600)))
    t0 = CLOCK.now_us()
    params0 = {}

    def put(j):
        p = mk_params(ts=CLOCK.now_us(), max_amount=j.get("retries", 0), tried=j.get("tried", 0),
                      result=(f"r{j['id']}", None) if j.get("result") else None, timeout_us=j.get("timeout", 600 * S))
        m = MemMessage(key(f"m{j['id']}", f"a{j['queue']}", f"q{j['queue']}"), '{"jid": %d}' % j["id"], p)
        params0[j["id"]] = m
        world.mb.queues[f"q{j['queue']}"].simple.put_nowait(m)
        log.add("enqueued", jid=j["id"], queue=j["queue"])

    for j in sc["jobs"]:
        if not j.get("at"):
            put(j)

    def task_hook(kind, task):
        if task.qualname in ("_Runner._process_with_event", "_Runner._run_consumer"):
            log.add(kind, vid=task.vid, qualname=task.qualname, label=dict(task.vlabel))

    loop.task_hook = task_hook
    loop.max_iterations = loop.iteration + 3_000_000
    worker = world.worker([router], messages_limit=sc["M"] if sc["M"] is not None else float("inf"), tasks_limit=sc["limit"],
                          handle_signals=[signal.SIGINT], graceful_shutdown_time=sc.get("graceful", 60.0))

    async def arrivals():
        for j in sorted((j for j in sc["jobs"] if j.get("at")), key=lambda j: j["at"]):
            delay = (t0 + j["at"] - CLOCK.now_us()) / 1_000_000
            if delay > 0:
                await asyncio.sleep(delay)
            put(j)

    async def stopper():
        if sc.get("stop_at") is None:
            return
        await asyncio.sleep(sc["stop_at"] / 1_000_000)
        h = loop.signal_handlers.get(int(signal.SIGINT))
        if h is not None:
            log.add("signal")
            h()

    runner, err = None, None
    it0 = loop.iteration
    busy0 = len(loop.busy_iterations)
    fired = {}
    if sc.get("stop_iter") is not None:
        def hook(lp):
            if "t" not in fired and lp.iteration - it0 >= sc["stop_iter"]:
                h = lp.signal_handlers.get(int(signal.SIGINT))
                if h is not None:
                    fired["t"] = CLOCK.now_us()
                    fired["iter"] = lp.iteration - it0
                    log.add("signal")
                    h()
        loop.step_hook = hook
    with Probes(log):
        arr = asyncio.ensure_future(arrivals())
        stp = asyncio.ensure_future(stopper())
        run_task = asyncio.ensure_future(worker.run())
        spun = {}
        inner_hook = loop.step_hook

        def guard(lp):
            # a worker that never stops polls without letting (virtual) time pass: end the run after a million loop iterations
            if inner_hook is not None:
                inner_hook(lp)
            if "x" not in spun and lp.iteration - it0 > 1_000_000:
                spun["x"] = True
                run_task.cancel()
        loop.step_hook = guard
        try:
            runner = await asyncio.wait_for(run_task, sc.get("run_timeout", 600))
        except asyncio.TimeoutError:
            err = "run() did not return within the virtual time budget"
        except asyncio.CancelledError:
            if "x" not in spun:
                raise
            err = "run() did not return within a million loop iterations"
        except Exception as e:  # noqa: BLE001
            err = repr(e)
        t_return = CLOCK.now_us()
        for t in (arr, stp):
            t.cancel()
        await asyncio.gather(arr, stp, return_exceptions=True)
    loop.task_hook = None
    loop.step_hook = None
    # let whatever the run left behind (cancelled tasks giving their messages back) finish
    for _ in range(50):
        await asyncio.sleep(0)
    out = {"busy": [i - it0 for i in loop.busy_iterations[busy0:]], "it0": it0, "t_stop": fired.get("t"), "stop_fired_at": fired.get("iter"),"err": err, "events": log.events, "t0": t0, "t_return": t_return, "max_running": running["max"],
           "starts": [e["jid"] for e in log.events if e["kind"] == "actor_start"],
           "ends": [e["jid"] for e in log.events if e["kind"] == "actor_end"], "world": world, "params0": params0}
    remaining = {}
    for q in qs:
        snap = world.snapshot(f"q{q}")
        remaining[q] = {"simple": [m for m in snap["simple"]], "processing": list(snap["processing"]),
                        "dead": list(snap["dead"]), "delayed": [m for _, ms in snap["delayed"] for m in ms]}
    out["remaining"] = remaining
    if runner is not None and not hasattr(runner, "_limiter"):
        out["label"] = None          # the runner has no semaphore to label the events with: the run is judged by the oracle only
    elif runner is not None:
        out["label"] = {"sem": id(runner._limiter), "stop": id(runner.stop_consume_event), "cancel": id(runner.cancel_event),
                        "processed": runner._tasks_processed,
                        "value": runner._limiter._value, "stop_set": runner.stop_consume_event.is_set(), "n_tasks": len(runner._tasks)}
    return out


def to_events(sc: dict, r: dict):
    """Translate the log into Runner.v events. Returns (list of Coq event terms, problems)."""
    lab = r.get("label")
    if lab is None:
        return None, ["no runner object to label the events with"]
    evs, problems = [], []
    loop_q = {}          # vid of a _run_consumer task -> queue number
    proc_m = {}          # vid of a _process_with_event task -> message number
    last_done = None
    slow_pause = bool(sc.get("pause_round_trip"))
    pausing, fast_after_pause = set(), set()
    unpausing = set()    # loops inside consumer.unpause() (a round trip): they hold a slot
    r["slots_not_returned"] = 0
    holding = {}         # queue -> message its loop took last
    surplus = {}         # message being given back -> queue
    events = r["events"]
    for n_ev, e in enumerate(events):
        k = e["kind"]
        if k == "enqueued":
            evs.append(f"(EvEnqueue {e['queue']} {e['jid']})")
        elif k == "task_create":
            if e["qualname"] == "_Runner._run_consumer":
                qn = e["label"].get("queue")
                if qn is None:
                    problems.append("loop task without a queue label")
                else:
                    loop_q[e["vid"]] = int(qn[1:])
            else:
                mid = e["label"].get("key")
                if mid is None:
                    problems.append("processing task without a message label")
                    continue
                proc_m[e["vid"]] = int(mid[1:])
                q = loop_q.get(e["tv"])
                if q is None:
                    problems.append("processing task created outside a loop task")
                    continue
                holding.pop(q, None)
                unpausing.discard(q)
                evs.append(f"(EvSpawn {q})")
        elif k == "task_done" and e["qualname"] == "_Runner._process_with_event":
            last_done = proc_m.get(e["vid"])
        elif k == "task_cancel" and e["qualname"] == "_Runner._run_consumer":
            q = loop_q.get(e["vid"])
            if q is not None and q in unpausing:
                # cancelled inside an unpause() that is a round trip: the model's loop gives its slot back (EvCancelLoop on LHold),
                # the code does not (the worker is stopping, nobody needs the slot any more): accounted for in final_obs
                unpausing.discard(q)
                r["slots_not_returned"] += 1
            if q is not None:
                m = holding.get(q)
                if m is not None and m not in surplus:
                    # the loop is cancelled with a message in hand: it gives it back itself (a reject of that message follows) -
                    # unless the cancellation hit consume() after it had taken the message: then the loop never saw it
                    gives_back = any(x["kind"] == "broker_done" and x.get("op") == "reject" and int(x["id"][1:]) == m for x in events[n_ev:])
                    if gives_back:
                        surplus[m] = q
                        evs.append(f"(EvCancelLoop {q})")
                    else:
                        evs.append(f"(EvCancelLost {q})")
                    holding.pop(q, None)
                else:
                    evs.append(f"(EvCancelLoop {q})")
        elif k == "consume":
            holding[int(e["queue"][1:])] = int(e["id"][1:])
            evs.append(f"(EvDeliver {int(e['queue'][1:])} {int(e['id'][1:])})")
        elif k == "sem_acquire" and e["sem"] == lab["sem"]:
            q = loop_q.get(e["tv"])
            if q is None:
                problems.append("limiter acquired outside a loop task")
            elif not e["locked"]:
                evs.append(f"(EvAcquireFast {q})")
                if q in pausing:
                    pausing.discard(q)
                    fast_after_pause.add(q)        # pause() was on the wire, a slot freed meanwhile: no waiting; unpause() follows
            elif q in pausing:
                pausing.discard(q)
                evs.append(f"(EvPause {q})")      # pause() has returned, the limiter is still locked: the loop queues up now
        elif k == "sem_release" and e["sem"] == lab["sem"]:
            if e["tv"] in loop_q:
                unpausing.discard(loop_q[e["tv"]])
                surplus[holding.get(loop_q[e["tv"]])] = loop_q[e["tv"]]
                evs.append(f"(EvSurplus {loop_q[e['tv']]})")
            elif last_done is not None:
                evs.append(f"(EvTaskDone {last_done})")
                last_done = None
            else:
                problems.append("limiter released by neither a loop nor a finished task")
        elif k == "pause" and e["tq"] == "_Runner._run_consumer":
            if slow_pause:
                # a pause() that is a round trip: the loop has not queued up yet (Runner.EvPauseStart)
                pausing.add(int(e['queue'][1:]))
                evs.append(f"(EvPauseStart {int(e['queue'][1:])})")
            else:
                evs.append(f"(EvPause {int(e['queue'][1:])})")
        elif k == "unpause" and e["tq"] == "_Runner._run_consumer":
            if slow_pause:
                unpausing.add(int(e['queue'][1:]))
            if int(e['queue'][1:]) in fast_after_pause:
                fast_after_pause.discard(int(e['queue'][1:]))
                evs.append(f"(EvUnpauseHold {int(e['queue'][1:])})")
            else:
                evs.append(f"(EvUnpause {int(e['queue'][1:])})")
        elif k == "broker_done" and e["op"] == "reject" and int(e["id"][1:]) in surplus:
            # (the broker call runs in the middleware wrapper's child task: attributed through the message)
            q_ = surplus.pop(int(e['id'][1:]))
            holding.pop(q_, None)
            evs.append(f"(EvRejected {q_})")
        elif k == "event_set" and e["ev"] == lab["stop"]:
            evs.append("EvStop")
    return evs, problems


def final_obs(sc: dict, r: dict) -> list[int]:
    lab = r["label"]
    # an invocation that ended cancelled (not an Exception) made no disposition: its message stays in the processing set and is
    # returned by the consumer's finish() - outside the model (C02's note on BaseException endings); not counted as a leftover
    undisposed = {j["id"] for j in sc["jobs"] if j.get("cancelled") and j["id"] in {int(x) for x in r["starts"]}} if sc.get("jobs") else set()
    rem = sorted(i for i in (int(m.key.id_[1:]) for q in sc["queues"] for part in ("simple", "processing") for m in r["remaining"][q][part])
                 if i not in undisposed)
    return [1, len(r["starts"]), lab["processed"], lab["value"] + r.get("slots_not_returned", 0), 1 if lab["stop_set"] else 0, lab["n_tasks"], len(rem)] + rem


def case_term(sc: dict, evs: list) -> str:
    mx = "None" if sc["M"] is None else f"(Some {sc['M']})"
    return f"({sc['limit']}, {mx}, {ct.zlist(sc['queues'])}, {ct.lst(evs)})"


def to_shutdown_events(sc: dict, r: dict):
    """Translate the log of a single-queue run into the events of Shutdown.v. Returns (terms, problems)."""
    lab = r.get("label")
    if lab is None:
        return None, ["no runner object to label the events with"]
    if len(sc["queues"]) != 1:
        return None, ["more than one queue: the ownership model is about one consumer"]
    KIND = {"ack": 1, "nack": 2, "requeue": 3}
    evs, problems = [], []
    loop_holds = None          # message delivered to the loop and not yet spawned / given back
    has_task = set()           # messages with a live processing task
    disposed = set()           # ... whose terminal effect happened
    cancelled = set()
    pending = {}               # message -> (kind of call in progress, effect already seen)
    finishing = False
    finish_emitted = False
    loops = set()
    events = r["events"]
    for n_ev, e in enumerate(events):
        k = e["kind"]
        if k == "task_create" and e["qualname"] == "_Runner._run_consumer":
            loops.add(e["vid"])
        elif k == "consume":
            loop_holds = int(e["id"][1:])
            evs.append(f"(SDeliver {loop_holds})")
        elif k == "task_create" and e["qualname"] == "_Runner._process_with_event":
            mid = e["label"].get("key")
            if mid is None:
                problems.append("processing task without a message label")
                continue
            m = int(mid[1:])
            has_task.add(m)
            if loop_holds == m:
                loop_holds = None
            evs.append(f"(SSpawn {m})")
        elif k == "task_cancel" and e["qualname"] == "_Runner._run_consumer":
            if loop_holds is not None:
                # since the fix recorded for C03 the cancelled loop gives the message back itself (SLoopGiveBack, at the effect
                # of its reject); only when the cancellation hit consume() after the take does the message stay with nobody
                gives_back = any(x["kind"] == "broker" and x.get("op") == "reject" and int(x["id"][1:]) == loop_holds for x in events[n_ev:])
                if not gives_back:
                    evs.append(f"(SLoopCancelled {loop_holds})")
                    loop_holds = None
        elif k == "broker" and e["op"] in KIND:
            m = int(e["id"][1:])
            pending[m] = [e["op"], False]
            evs.append(f"(SActorEnd {m} {KIND[e['op']]})")
        elif k == "broker" and e["op"] == "reject":
            m = int(e["id"][1:])
            if m in has_task:
                pending[m] = ["task_reject", False]
                cancelled.add(m)
                evs.append(f"(STaskCancel {m})")
            else:
                pending[m] = ["loop_reject", False]
        elif k == "held_remove":
            m = int(e["id"][1:])
            p = pending.get(m)
            if p is not None and not p[1]:
                p[1] = True
                if p[0] in KIND:
                    disposed.add(m)
                    evs.append(f"(SEffect {m})")
                elif p[0] == "task_reject":
                    has_task.discard(m)
                    evs.append(f"(SRejectEffect {m})")
                else:
                    if loop_holds == m:
                        loop_holds = None
                    evs.append(f"(SLoopGiveBack {m})")
            elif finishing:
                if not finish_emitted:
                    finish_emitted = True
                    evs.append("SFinish")
            else:
                problems.append(f"message {m} left the processing set outside any call")
        elif k == "broker_done" and e["op"] in ("ack", "nack", "requeue", "reject"):
            m = int(e["id"][1:])
            p = pending.pop(m, None)
            if p is not None and not p[1]:
                # the call found the message not held: its effect (nothing, or requeue's replacement) happened without a removal
                if p[0] in KIND:
                    disposed.add(m)
                    evs.append(f"(SEffect {m})")
                elif p[0] == "task_reject":
                    has_task.discard(m)
                    evs.append(f"(SRejectEffect {m})")
                else:
                    if loop_holds == m:
                        loop_holds = None
                    evs.append(f"(SLoopGiveBack {m})")
        elif k == "task_done" and e["qualname"] == "_Runner._process_with_event":
            mid = e["label"].get("key")
            m = int(mid[1:]) if mid else None
            if m in has_task and m in disposed and m not in cancelled:
                has_task.discard(m)
                evs.append(f"(STaskEnd {m})")
        elif k == "event_set" and e["ev"] == lab["cancel"]:
            evs.append("SCancel")
        elif k == "consumer_finish":
            finishing = True
        elif k == "consumer_finish_done":
            if not finish_emitted:
                finish_emitted = True
                evs.append("SFinish")
            finishing = False
    return evs, problems


def shutdown_final_obs(sc: dict, r: dict) -> list[int]:
    q = sc["queues"][0]
    rem = r["remaining"][q]
    ids = lambda part: sorted(int(m.key.id_[1:]) for m in rem[part])   # noqa: E731
    present = set(ids("simple")) | set(ids("processing")) | set(ids("dead")) | set(ids("delayed"))
    # gone from every container (an ack whose effect happened; a lost message would show up here too and the model disagrees)
    acked = sorted({j["id"] for j in sc["jobs"] if j["id"] in r["params0"]} - present)

    def enc(l):
        return [len(l)] + list(l)
    return [1] + enc(ids("simple")) + enc(ids("processing")) + enc(acked) + enc(ids("dead")) + enc(ids("delayed")) + [0, 0]


def shutdown_case_term(sc: dict, evs: list) -> str:
    msgs = [j["id"] for j in sc["jobs"]]
    return f"({ct.zlist(msgs)}, {ct.lst(evs)})"
