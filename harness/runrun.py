"""Runs a real Worker in virtual time with generic asyncio probes and turns what happened into the event alphabet of
Runner.v (EvDeliver / EvAcquireFast / EvPause / EvUnpause / EvSpawn / EvSurplus / EvRejected / EvTaskDone / EvStop /
EvCancelLoop / EvEnqueue).  Probes: asyncio.Semaphore.acquire/release and asyncio.Event.set patched on the classes for the
duration of the run, task creation / cancellation / completion from the loop's task factory, the recording consumer and
broker of harness.world, the harness's own actor functions.  repid internals are read only to LABEL events (which queue a
loop task serves, which message a processing task carries, which Semaphore / Event objects are the runner's)."""
import asyncio
import signal

from . import coqterm as ct
from .clock import CLOCK
from .pyparams import mk_params
from .world import MemMessage, Router, World, key

S = 1_000_000


class Probes:
    def __init__(self, log) -> None:
        self.log = log
        self._orig = None

    def __enter__(self):
        log = self.log
        o_acq, o_rel, o_set = asyncio.Semaphore.acquire, asyncio.Semaphore.release, asyncio.Event.set
        self._orig = (o_acq, o_rel, o_set)

        async def acquire(sem):
            log.add("sem_acquire", sem=id(sem), locked=sem.locked())
            return await o_acq(sem)

        def release(sem):
            log.add("sem_release", sem=id(sem))
            return o_rel(sem)

        def set_(ev):
            if not ev.is_set():
                log.add("event_set", ev=id(ev))
            return o_set(ev)

        asyncio.Semaphore.acquire, asyncio.Semaphore.release, asyncio.Event.set = acquire, release, set_
        return self

    def __exit__(self, *exc):
        asyncio.Semaphore.acquire, asyncio.Semaphore.release, asyncio.Event.set = self._orig
        return False


async def run_scenario(sc: dict, loop) -> dict:
    """sc: limit, M (or None), queues [q..], jobs [{id, queue, dur(us), at(us, arrival offset; 0 = before start), fail}],
    stop_at (us, virtual offset at which SIGINT is sent; None = rely on M), graceful (s)."""
    from repid import BasicConverter
    world = World(results=False, args=False)
    log = world.log
    qs = sc["queues"]
    await world.declare(*[f"q{q}" for q in qs])
    durs = {j["id"]: j for j in sc["jobs"]}
    running = {"n": 0, "max": 0}

    async def act(jid: int) -> int:
        running["n"] += 1
        running["max"] = max(running["max"], running["n"])
        log.add("actor_start", jid=jid, running=running["n"])
        try:
            d = durs[jid]["dur"]
            if d:
                await asyncio.sleep(d / 1_000_000)
            if durs[jid].get("fail"):
                raise ValueError("job fails")
            return jid
        finally:
            running["n"] -= 1
            log.add("actor_end", jid=jid)

    router = Router()
    for q in qs:
        router.actor(act, name=f"a{q}", queue=f"q{q}", converter=BasicConverter)
    t0 = CLOCK.now_us()
    params0 = {}

    def put(j):
        p = mk_params(ts=CLOCK.now_us())
        m = MemMessage(key(f"m{j['id']}", f"a{j['queue']}", f"q{j['queue']}"), '{"jid": %d}' % j["id"], p)
        params0[j["id"]] = m
        world.mb.queues[f"q{j['queue']}"].simple.put_nowait(m)
        log.add("enqueued", jid=j["id"], queue=j["queue"])

    for j in sc["jobs"]:
        if not j.get("at"):
            put(j)

    def task_hook(kind, task):
        if task.qualname in ("_Runner._process_with_event", "_Runner._run_consumer"):
            log.add(kind, vid=task.vid, qualname=task.qualname, label=dict(task.vlabel))

    loop.task_hook = task_hook
    loop.max_iterations = loop.iteration + 3_000_000
    worker = world.worker([router], messages_limit=sc["M"] if sc["M"] is not None else float("inf"), tasks_limit=sc["limit"],
                          handle_signals=[signal.SIGINT], graceful_shutdown_time=sc.get("graceful", 60.0))

    async def arrivals():
        for j in sorted((j for j in sc["jobs"] if j.get("at")), key=lambda j: j["at"]):
            delay = (t0 + j["at"] - CLOCK.now_us()) / 1_000_000
            if delay > 0:
                await asyncio.sleep(delay)
            put(j)

    async def stopper():
        if sc.get("stop_at") is None:
            return
        await asyncio.sleep(sc["stop_at"] / 1_000_000)
        h = loop.signal_handlers.get(int(signal.SIGINT))
        if h is not None:
            log.add("signal")
            h()

    runner, err = None, None
    with Probes(log):
        arr = asyncio.ensure_future(arrivals())
        stp = asyncio.ensure_future(stopper())
        try:
            runner = await asyncio.wait_for(worker.run(), sc.get("run_timeout", 600))
        except asyncio.TimeoutError:
            err = "run() did not return within the virtual time budget"
        except Exception as e:  # noqa: BLE001
            err = repr(e)
        t_return = CLOCK.now_us()
        for t in (arr, stp):
            t.cancel()
        await asyncio.gather(arr, stp, return_exceptions=True)
    loop.task_hook = None
    out = {"err": err, "events": log.events, "t0": t0, "t_return": t_return, "max_running": running["max"],
           "starts": [e["jid"] for e in log.events if e["kind"] == "actor_start"],
           "ends": [e["jid"] for e in log.events if e["kind"] == "actor_end"], "world": world, "params0": params0}
    remaining = {}
    for q in qs:
        snap = world.snapshot(f"q{q}")
        remaining[q] = {"simple": [m for m in snap["simple"]], "processing": list(snap["processing"]),
                        "dead": list(snap["dead"]), "delayed": [m for _, ms in snap["delayed"] for m in ms]}
    out["remaining"] = remaining
    if runner is not None:
        out["label"] = {"sem": id(runner._limiter), "stop": id(runner.stop_consume_event), "processed": runner._tasks_processed,
                        "value": runner._limiter._value, "stop_set": runner.stop_consume_event.is_set(), "n_tasks": len(runner._tasks)}
    return out


def to_events(sc: dict, r: dict):
    """Translate the log into Runner.v events. Returns (list of Coq event terms, problems)."""
    lab = r.get("label")
    if lab is None:
        return None, ["no runner object to label the events with"]
    evs, problems = [], []
    loop_q = {}          # vid of a _run_consumer task -> queue number
    proc_m = {}          # vid of a _process_with_event task -> message number
    last_done = None
    holding = {}         # queue -> message its loop took last
    surplus = {}         # message being given back -> queue
    for e in r["events"]:
        k = e["kind"]
        if k == "enqueued":
            evs.append(f"(EvEnqueue {e['queue']} {e['jid']})")
        elif k == "task_create":
            if e["qualname"] == "_Runner._run_consumer":
                qn = e["label"].get("queue")
                if qn is None:
                    problems.append("loop task without a queue label")
                else:
                    loop_q[e["vid"]] = int(qn[1:])
            else:
                mid = e["label"].get("key")
                if mid is None:
                    problems.append("processing task without a message label")
                    continue
                proc_m[e["vid"]] = int(mid[1:])
                q = loop_q.get(e["tv"])
                if q is None:
                    problems.append("processing task created outside a loop task")
                    continue
                evs.append(f"(EvSpawn {q})")
        elif k == "task_done" and e["qualname"] == "_Runner._process_with_event":
            last_done = proc_m.get(e["vid"])
        elif k == "task_cancel" and e["qualname"] == "_Runner._run_consumer":
            q = loop_q.get(e["vid"])
            if q is not None:
                evs.append(f"(EvCancelLoop {q})")
        elif k == "consume":
            holding[int(e["queue"][1:])] = int(e["id"][1:])
            evs.append(f"(EvDeliver {int(e['queue'][1:])} {int(e['id'][1:])})")
        elif k == "sem_acquire" and e["sem"] == lab["sem"]:
            q = loop_q.get(e["tv"])
            if q is None:
                problems.append("limiter acquired outside a loop task")
            elif not e["locked"]:
                evs.append(f"(EvAcquireFast {q})")
        elif k == "sem_release" and e["sem"] == lab["sem"]:
            if e["tv"] in loop_q:
                surplus[holding.get(loop_q[e["tv"]])] = loop_q[e["tv"]]
                evs.append(f"(EvSurplus {loop_q[e['tv']]})")
            elif last_done is not None:
                evs.append(f"(EvTaskDone {last_done})")
                last_done = None
            else:
                problems.append("limiter released by neither a loop nor a finished task")
        elif k == "pause" and e["tq"] == "_Runner._run_consumer":
            evs.append(f"(EvPause {int(e['queue'][1:])})")
        elif k == "unpause" and e["tq"] == "_Runner._run_consumer":
            evs.append(f"(EvUnpause {int(e['queue'][1:])})")
        elif k == "broker_done" and e["op"] == "reject" and int(e["id"][1:]) in surplus:
            # (the broker call runs in the middleware wrapper's child task: attributed through the message)
            evs.append(f"(EvRejected {surplus.pop(int(e['id'][1:]))})")
        elif k == "event_set" and e["ev"] == lab["stop"]:
            evs.append("EvStop")
    return evs, problems


def final_obs(sc: dict, r: dict) -> list[int]:
    lab = r["label"]
    rem = sorted(int(m.key.id_[1:]) for q in sc["queues"] for part in ("simple", "processing") for m in r["remaining"][q][part])
    return [1, len(r["starts"]), lab["processed"], lab["value"], 1 if lab["stop_set"] else 0, lab["n_tasks"], len(rem)] + rem


def case_term(sc: dict, evs: list) -> str:
    mx = "None" if sc["M"] is None else f"(Some {sc['M']})"
    return f"({sc['limit']}, {mx}, {ct.zlist(sc['queues'])}, {ct.lst(evs)})"
