#!/bin/bash
# Clean full build of the Coq development (no network, no -vos) and byte-compile check of the harness.
set -e
cd "$(dirname "$0")"
rm -rf coq/_cases
PYTHONPATH=/verif python3 -c "
import os
from harness import translate
open('coq/GenSched.v', 'w').write(translate.translate(os.environ.get('VERIF_REPO', '/repo')))
open('coq/GenLadder.v', 'w').write(translate.translate_ladder(os.environ.get('VERIF_REPO', '/repo')))
open('coq/GenHandle.v', 'w').write(translate.translate_handle(os.environ.get('VERIF_REPO', '/repo')))
open('coq/GenRabbit.v', 'w').write(translate.translate_rabbit(os.environ.get('VERIF_REPO', '/repo')))
open('coq/GenRedisMaint.v', 'w').write(translate.translate_redis_maintenance(os.environ.get('VERIF_REPO', '/repo')))"
cd coq
coq_makefile -f _CoqProject -o Makefile
make clean >/dev/null 2>&1 || true
timeout 3000 make -j16
cd ..
PYTHONPATH=/verif:/repo /venv/bin/python -c "import harness.cli"
echo "setup ok"
